"""Environment shim for subprocesses that run the real doctrans CLI / library.

* the third-party `meta` package fails on its *first* import on CPython 3.12
  (KeyError: 'JUMP_IF_FALSE_OR_POP'); a second import succeeds because the
  partially initialised sub-modules stay in sys.modules.  Doing the failing
  import here lets `python -m doctrans ...` start.
* doctrans emits thousands of `ast.Str` deprecation warnings.
"""
import warnings

warnings.simplefilter("ignore")
try:
    import meta  # noqa: F401
except Exception:
    pass
