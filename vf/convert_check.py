"""Checks C01-C06, C08, C18: Convert.tla model checking + trace validation of the real emitters/parsers."""
import hashlib
import itertools
import json
import os
import random
import subprocess
import sys

from . import convert_driver as CD
from . import domain as D
from . import findings as F
from . import tlc
from .common import NCPU, PY, REPLAY, VERIF, Timer, child_env, dump_json, scratch, seed, tier

DOC = ("rest", "numpydoc", "google")
KINDS = DOC + ("class", "function", "method", "argparse")

# ---------------------------------------------------------------------------------------------- domains

_dom_cache = {}


def load_domain(name):
    """TLC-exported input domain (spec -> code)."""
    if name not in _dom_cache:
        d = scratch("dom-")
        tlc.export("ConvertExport.tla", "ConvertExport_%s.cfg" % name, d)
        _dom_cache[name] = tlc.read_ndjson(os.path.join(d, "ir_%s.ndjson" % name))
        for extra in ("slots", "kwslots", "rets"):
            _dom_cache[extra] = tlc.read_ndjson(os.path.join(d, extra + ".ndjson"))
    return _dom_cache[name]


def wide_domain(n, rnd):
    """Random products of TLC-exported slot classes: 0..3 params + optional kw + optional return, mixed summaries."""
    load_domain("single")
    slots, kws, rets = _dom_cache["slots"], _dom_cache["kwslots"], _dom_cache["rets"]
    out = []
    for _ in range(n):
        k = rnd.choice((0, 1, 2, 2, 3, 3, 4))
        ps = []
        for i, nm in enumerate(("p1", "p2", "p3", "p4")[:k]):
            s = dict(rnd.choice(slots))
            s["name"] = nm
            ps.append(s)
        if rnd.random() < 0.4:
            ps.append(dict(rnd.choice(kws)))
        out.append({"doc": rnd.choice(("one", "multi")), "params": ps, "ret": dict(rnd.choice(rets))})
    return out


# ---------------------------------------------------------------------------------------------- features

def micro(s):
    return [s["typ"], s["dbase"], s["dstop"], s["dann"], s["def"]]


def micro_ret(r):
    return ["ret", r["present"], r["typ"], r["dbase"], r["dstop"], r["dann"], r["def"]]


def comps_of(air):
    c = [{"s": micro(s)} for s in air["params"]]
    c.append({"r": micro_ret(air["ret"])})
    if not air["params"]:
        c.append({"n0": True})
    if air["doc"] != "one":
        c.append({"sum": air["doc"]})
    return c


def _by_name(ps, n):
    for p in ps:
        if p["name"] == n:
            return p
    return None


def _corrupt(b):
    return b["typ"] == "other" or b["def"] in ("other", "codeQ") or b["dbase"] == "other" or b["dann"] == "diff"


def _nn(name):
    return "other" if name.startswith("other:") else name


def _ir_diff(a, b):
    out = []
    if a["doc"] != b["doc"]:
        out.append("doc")
    na, nb = [p["name"] for p in a["params"]], [p["name"] for p in b["params"]]
    if na != nb:
        out.append("names")
    for p in a["params"]:
        q = _by_name(b["params"], p["name"])
        if q:
            out += ["%s" % k for k in ("typ", "def", "dbase", "dstop", "dann") if p[k] != q[k]]
    out += ["ret." + k for k in ("present", "typ", "def", "dbase", "dstop", "dann") if a["ret"][k] != b["ret"][k]]
    return sorted(set(out))


def instances(trace, meta):
    """Mirror of the clause *structure* of ConvertTrace.tla (names only, no truth values): yields
    (step, clause, slot, feat).  Used to build signatures; TLC alone decides which instances fail."""
    cur = trace["init"]
    art = None
    ref = None
    last = {"kind": None, "dd": None, "n": 0, "irn": 0}
    hop = 0
    prev = "none"
    icomps = comps_of(trace["init"])
    for item in _instances(trace, meta):
        item[3]["icomps"] = icomps
        yield item


def _instances(trace, meta):
    cur = trace["init"]
    art = None
    ref = None
    last = {"kind": None, "dd": None, "n": 0, "irn": 0}
    hop = 0
    prev = "none"
    path_kinds = []
    for l, e in enumerate(trace["ev"], 1):
        if e["a"] == "reset":
            path_kinds = []
            prev_ev = trace["ev"][l - 2] if l >= 2 else None
            ref = cur if (prev_ev and prev_ev["a"] == "parse" and prev_ev["exc"] == "none") else None
            cur, art = trace["init"], None
            last = {"kind": None, "dd": None, "n": 0, "irn": 0}
            hop, prev = 0, "none"
            continue
        if e["a"] == "emit":
            o = meta["opts"][l - 1]
            base = {"k": e["kind"], "dd": e["dd"], "wrap": o["wrap"], "xo": o.get("xo", ""), "inl": e["inline"], "kwo": e["kwonly"], "ft": e["ftype"],
                    "ind": o["indent"], "hop": hop + 1, "prev": prev, "tb": meta["table"], "n": len(cur["params"]),
                    "ret": micro_ret(cur["ret"]), "step": "emit"}

            def ev(cl, obs):
                f = dict(base)
                f.update(cl=cl, obs=obs, comps=comps_of(cur))
                return (l, cl, "-", f)

            def sl(cl, s, obs, idx):
                f = dict(base)
                f.update(cl=cl, obs=obs, s=micro(s), comps=comps_of(cur), pd=any(x["def"] != "absent" for x in cur["params"][:idx]),
                         ld=any(x["def"] != "absent" for x in cur["params"][idx + 1:]))
                return (l, cl, s["name"], f)

            if e["exc"] != "none":
                yield ev("EmitNeverRaises", e["exc"])
            else:
                yield ev("EmitNeverRaises", "ok")
                if e["kind"] in DOC:
                    yield ev("StyleDetected", [e["flags"]["rest"], e["flags"]["google"], e["flags"]["numpy"]])
                elif e["view"]:
                    py = e["py"]
                    yield ev("Denotes.Compiles", py["compiles"])
                    yield ev("Denotes.ReparseSame", py["reparse"])
                    yield ev("Denotes.FileSame", [py["file_black"], py["file_plain"]])
                    yield ev("Denotes.Executes", py["executes"])
                    if py["executes"]:
                        if e["kind"] == "class":
                            at = py["attrs"]
                            yield ev("Denotes.AttrNames", [_nn(a["name"]) for a in at])
                            for i, s in enumerate(cur["params"]):
                                a = _by_name(at, s["name"])
                                if a:
                                    yield sl("Denotes.AttrAnn", s, a["ann"], i)
                                    yield sl("Denotes.AttrVal", s, a["val"], i)
                            a = _by_name(at, "return_type")
                            if cur["ret"]["present"] and a:
                                f = dict(base)
                                f.update(cl="Denotes.AttrAnn", obs=a["ann"], comps=comps_of(cur))
                                yield (l, "Denotes.AttrAnn", "return", f)
                                f = dict(base)
                                f.update(cl="Denotes.AttrVal", obs=a["val"], comps=comps_of(cur))
                                yield (l, "Denotes.AttrVal", "return", f)
                        elif e["kind"] in ("function", "method"):
                            ps = py["params"]
                            yield ev("Denotes.SigNames", [_nn(p["name"]) for p in ps])
                            yield ev("Denotes.First", py["first"])
                            for cl, ob in (("Denotes.RetAnn", py["retann"]), ("Denotes.RetExpr", py["retexpr"])):
                                f = dict(base)
                                f.update(cl=cl, obs=ob, comps=comps_of(cur))
                                yield (l, cl, "return", f)
                            for i, s in enumerate(cur["params"]):
                                p = _by_name(ps, s["name"])
                                if p:
                                    yield sl("Denotes.SigKind", s, p["pk"], i)
                                    yield sl("Denotes.SigAnn", s, p["ann"], i)
                                    yield sl("Denotes.SigDef", s, p["def"], i)
                        else:
                            os_ = py["options"]
                            yield ev("Denotes.OptNames", [_nn(p["name"]) for p in os_])
                            yield ev("Denotes.Description", py["desc"])
                            f = dict(base)
                            f.update(cl="Denotes.RetExpr", obs=py["retexpr"], comps=comps_of(cur))
                            yield (l, "Denotes.RetExpr", "return", f)
                            for i, s in enumerate(cur["params"]):
                                p = _by_name(os_, s["name"])
                                if p:
                                    yield sl("Denotes.OptType", s, p["type"], i)
                                    yield sl("Denotes.OptChoices", s, [p["choices"], p["choices_ok"]], i)
                                    yield sl("Denotes.OptAppend", s, p["append"], i)
                                    yield sl("Denotes.OptRequired", s, p["required"], i)
                                    yield sl("Denotes.OptDefault", s, p["def"], i)
                                    yield sl("Denotes.OptHelp", s, [p["dbase"], p["dstop"], p["dann"]], i)
                if last["kind"] == e["kind"] and last["dd"] == e["dd"] and last["n"] >= 2:
                    yield ev("TextStable", "changed")
            if last["kind"] == e["kind"] and last["dd"] == e["dd"]:
                last = dict(last, n=last["n"] + 1)
            else:
                last = {"kind": e["kind"], "dd": e["dd"], "n": 1, "irn": 0}
            art = (e, o) if e["exc"] == "none" else None
            continue
        # parse
        ee, o = art
        k, dd = ee["kind"], ee["dd"]
        hop += 1
        base = {"k": k, "dd": dd, "wrap": o["wrap"], "xo": o.get("xo", ""), "inl": ee["inline"], "kwo": ee["kwonly"], "ft": ee["ftype"],
                "ind": o["indent"], "hop": hop, "prev": prev, "tb": meta["table"], "n": len(cur["params"]),
                "ret": micro_ret(cur["ret"]), "step": "parse"}
        b = cur

        def ev(cl, obs, comps=None):
            f = dict(base)
            f.update(cl=cl, obs=obs, comps=comps_of(b) if comps is None else comps)
            return (l, cl, "-", f)

        if trace.get("mode") == "chain":
            o = trace["init"]
            cbase = dict(base, path=sorted({x for x in path_kinds + [k]}))

            def cev(cl, obs):
                f = dict(cbase)
                f.update(cl=cl, obs=obs, comps=comps_of(o))
                return (l, cl, "-", f)

            if e["exc"] != "none":
                yield cev("NeverRaises", e["exc"])
            else:
                a = e["ir"]
                yield cev("NeverRaises", "ok")
                yield cev("Chain.Summary", a["doc"])
                yield cev("Chain.NamesOrder", "order")
                yield cev("Chain.NoExtraNames", sorted({_nn(p["name"]) for p in a["params"] if not _by_name(o["params"], p["name"])}))
                for i, s0 in enumerate(o["params"]):
                    q = _by_name(a["params"], s0["name"])
                    ctx = dict(cbase, s=micro(s0), comps=comps_of(o), pd=any(x["def"] != "absent" for x in o["params"][:i]),
                               ld=any(x["def"] != "absent" for x in o["params"][i + 1:]))
                    if q is None:
                        yield (l, "Chain.NamePresent", s0["name"], dict(ctx, cl="Chain.NamePresent", obs="missing"))
                        continue
                    yield (l, "Chain.NamePresent", s0["name"], dict(ctx, cl="Chain.NamePresent", obs="present"))
                    yield (l, "Chain.Typ", s0["name"], dict(ctx, cl="Chain.Typ", obs=q["typ"]))
                    yield (l, "Chain.Def", s0["name"], dict(ctx, cl="Chain.Def", obs=q["def"]))
                    yield (l, "Chain.Prose", s0["name"], dict(ctx, cl="Chain.Prose", obs=[q["dbase"], q["dann"]]))
                r = a["ret"]
                f = dict(cbase)
                f.update(cl="Chain.Ret", obs=[r["present"], r["typ"], r["dbase"], r["def"]], comps=comps_of(o), ret=micro_ret(o["ret"]))
                yield (l, "Chain.Ret", "return", f)
                if k == "argparse":
                    for i, s0 in enumerate(cur["params"]):
                        q = _by_name(a["params"], s0["name"])
                        if s0["def"] == "none" and s0["name"] != "kw" and not _corrupt(s0) and q is not None \
                                and any(x["def"] not in ("absent", "none") for x in cur["params"][:i]):
                            yield (l, "NoneRecovered", s0["name"], dict(cbase, cl="NoneRecovered", obs=q["def"], s=micro(s0), comps=comps_of(cur)))
                cur = a
            path_kinds.append(k)
            last = dict(last, irn=last["irn"] + 1)
            prev = k
            art = None
            continue
        if e["exc"] != "none":
            yield ev("NeverRaises", e["exc"])
        else:
            a = e["ir"]
            yield ev("NeverRaises", "ok")
            yield ev("SummaryKept", a["doc"])
            yield ev("NamesOrder", "order")
            yield ev("NoExtraNames", sorted({_nn(p["name"]) for p in a["params"] if not _by_name(b["params"], p["name"])}))
            yield ev("FuncKindKept", e["ftype"])
            for i, s in enumerate(b["params"]):
                q = _by_name(a["params"], s["name"])
                ctx = dict(base, s=micro(s), comps=comps_of(b), pd=any(x["def"] != "absent" for x in b["params"][:i]),
                           ld=any(x["def"] != "absent" for x in b["params"][i + 1:]))

                def sl(cl, obs):
                    f = dict(ctx)
                    f.update(cl=cl, obs=obs)
                    return (l, cl, s["name"], f)

                if q is None:
                    yield sl("NamePresent", "missing")
                    continue
                yield sl("NamePresent", "present")
                if _corrupt(s):
                    continue
                yield sl("TypKept", q["typ"])
                yield sl("DefaultFill" if s["def"] == "absent" else "DefaultKept", q["def"])
                yield sl("ProseKept.base", q["dbase"])
                yield sl("ProseKept.stop", q["dstop"])
                yield sl("ProseKept.ann", q["dann"])
                if k == "argparse" and s["def"] == "none" and s["name"] != "kw" and any(x["def"] not in ("absent", "none") for x in b["params"][:i]):
                    yield sl("NoneRecovered", q["def"])
            def rl(cl, obs):
                f = dict(base)
                f.update(cl=cl, obs=obs, comps=comps_of(b))
                return (l, cl, "return", f)

            yield rl("RetKept.present", a["ret"]["present"])
            if a["ret"]["present"] and b["ret"]["present"] and not _corrupt(b["ret"]):
                yield rl("RetKept.typ", a["ret"]["typ"])
                yield rl("RetKept.def", a["ret"]["def"])
                yield rl("RetKept.base", a["ret"]["dbase"])
                yield rl("RetKept.stop", a["ret"]["dstop"])
                yield rl("RetKept.ann", a["ret"]["dann"])
            if last["kind"] == k and last["dd"] == dd and last["irn"] >= 2:
                yield ev("IrStable", _ir_diff(a, b))
            if ref is not None:
                yield ev("ConfigTransparent", _ir_diff(a, ref), comps=comps_of(trace["init"]))
            cur = a
        last = dict(last, irn=last["irn"] + 1)
        prev = k
        art = None


# ---------------------------------------------------------------------------------------------- scenarios

def _sc(i, table, air, actions, files=False):
    return {"id": "t%d" % i, "table": table, "air": air, "actions": actions, "files": files}


FUN_OPTS_QUICK = [
    {"ftype": "static", "inline": True, "kwonly": False, "indent": 2},
    {"ftype": "static", "inline": False, "kwonly": True, "indent": 0},
    {"ftype": "static", "inline": True, "kwonly": True, "indent": 1},
    {"ftype": "static", "inline": False, "kwonly": False, "indent": 2},
]
METH_OPTS_QUICK = [
    {"ftype": "self", "inline": True, "kwonly": False, "indent": 2},
    {"ftype": "cls", "inline": False, "kwonly": True, "indent": 1},
    {"ftype": "self", "inline": False, "kwonly": False, "indent": 0},
    {"ftype": "cls", "inline": True, "kwonly": True, "indent": 2},
]


def fun_opts(kind, thorough):
    fts = ("static",) if kind == "function" else ("self", "cls")
    if not thorough:
        return FUN_OPTS_QUICK if kind == "function" else METH_OPTS_QUICK
    return [{"ftype": ft, "inline": i, "kwonly": kw, "indent": ind}
            for ft in fts for i in (True, False) for kw in (True, False) for ind in (0, 1, 2)]


def kind_opts(kind, thorough, rnd=None):
    """Option records for one kind (dd x wrap x function options)."""
    base = []
    if kind in ("function", "method"):
        for fo in fun_opts(kind, thorough):
            base.append(fo)
    else:
        base.append({})
    out = []
    for b in base:
        for dd in (True, False):
            for wrap in ((True, False) if thorough else (True,)):
                o = dict(b)
                o.update(dd=dd, wrap=wrap)
                out.append(o)
    if not thorough and kind not in ("function", "method"):
        o = dict(base[0])
        o.update(dd=True, wrap=False)
        out.append(o)
    return out


ARG_EXPR = {"none", "str", "int", "float", "bool", "OptStr", "OptInt", "OptBool", "ListStr", "LitStr", "LitInt", "OptDict"}


def argparse_domain(air):
    """C04/C05 quantifier: restricted to what argparse can express (scalars, Optional/List/Literal of scalars, kwargs dict).
    Descriptions with other types stay in the domain only without an explicit non-None default: they exercise the
    documented fall-back to str."""
    for s in air["params"]:
        if s["typ"] not in ARG_EXPR and s["def"] not in ("absent", "none"):
            return False
    r = air["ret"]
    return not r["present"] or r["typ"] in ("none", "int") or r["def"] == "absent"


def build(prop, thorough, rnd):
    """-> list of scenarios for a property."""
    ts = D.tables(6 if thorough else 1, seed())      # T0, T1, TN (related names), then seeded random tables
    T0, T1, TL = ts[0], ts[1], ts[3]
    single = load_domain("single")
    pair = load_domain("pair")
    triple = load_domain("triple")
    # function / method have 36 option records each: fewer descriptions per record keep the thorough tier within ~20 min
    heavy = prop in ("C03", "C06", "C08")
    n_tr = (1500 if heavy else 6000) if thorough else 700
    tri_s = rnd.sample(triple, min(n_tr, len(triple)))
    wide = wide_domain((1000 if heavy else 4000) if thorough else 500, rnd)
    pair_s = (rnd.sample(pair, 1200) if heavy else pair) if thorough else rnd.sample(pair, 1200)
    if thorough and heavy:
        ts = ts[:4]
    scs = []

    XO = {"class": ("call", "nobases", "deco", "dictbase"), "function": ("septab",), "method": ("septab",), "argparse": ("wrapdesc",)}

    def add(table, air, actions, files=False):
        if any(a[0] == "emit" and a[1] == "argparse" for a in actions) and not argparse_domain(air):
            return
        i = len(scs)
        if i % 3 == 1:
            # every third scenario has one further emitter option away from its default: it must not show in the description
            actions = [((a[0], a[1], dict(a[2], xo=XO[a[1]][(i // 3) % len(XO[a[1]])])) if a[0] == "emit" and a[1] in XO else a) for a in actions]
        scs.append(_sc(i, table, air, actions, files))

    def roundtrips(kinds, view=False, files_every=0):
        cnt = 0

        def acts(kind, oo):
            return [("emit", kind, oo)] if view else [("emit", kind, oo), ("parse",)]
        for kind in kinds:
            opts = kind_opts(kind, thorough)
            many = len(opts) > 8          # function / method in thorough: 144 option records
            for oi, o in enumerate(opts):
                oo = dict(o, view=view)
                for ti, tb in enumerate(ts if thorough else (T0, T1)):
                    if many and ti > 0:
                        continue          # every option record on the whole single-slot domain with one table ...
                    for air in single:
                        cnt += 1
                        add(tb, air, acts(kind, oo), files=bool(files_every and cnt % files_every == 0))
                if not thorough:
                    for air in single[oi % 3:: 3]:      # ... and a third of it with the long-text table
                        add(TL, air, acts(kind, oo))
                for j, air in enumerate(pair_s):
                    if many and j % len(opts) != oi:
                        continue          # ... and rotated over the multi-slot domains
                    tb = ts[j % len(ts)]
                    add(tb, air, acts(kind, oo))
                for j, air in enumerate(tri_s):
                    if many and j % len(opts) != oi:
                        continue
                    if (j + len(oo)) % (1 if thorough else 2) == 0 or many:
                        add(ts[j % len(ts)], air, acts(kind, oo))
                for j, air in enumerate(wide):
                    if many and j % len(opts) != oi:
                        continue
                    cnt += 1
                    add(ts[j % len(ts)], air, acts(kind, oo), files=bool(files_every and cnt % files_every == 0))

    def sweep(kinds):
        """Prose-length sweep (word wrap on, default text on): the wrap boundary visits every position of the announcement."""
        want = ["intPos", "str", "none", "boolT", "float", "strNum", "code", "intNeg", "int0", "strEmpty"]
        picked, seen = [], set()
        for air in single:
            ps = air["params"]
            if len(ps) == 1 and ps[0]["dbase"] == "own" and ps[0]["def"] in want and air["doc"] == "one":
                # alone, and followed by a return entry (an entry that is not the last one is re-joined differently)
                r = air["ret"]
                shape = "alone" if not r["present"] else ("ret" if r["dbase"] == "own" and r["typ"] == "int" and r["def"] == "absent" else None)
                key = (ps[0]["def"], ps[0]["dstop"], shape)
                if shape and key not in seen and (ps[0]["dstop"] or ps[0]["def"] in ("intPos", "str")):
                    seen.add(key)
                    picked.append(air)
            if not ps and air["ret"]["present"] and air["ret"]["dbase"] == "own" and air["ret"]["def"] == "code" and air["ret"]["typ"] != "none" \
                    and ("ret", air["ret"]["typ"]) not in seen and len([k for k in seen if k[0] == "ret"]) < 2:
                seen.add(("ret", air["ret"]["typ"]))
                picked.append(air)
        # the same entries with the `Defaults to` sentence already in the prose (what the docstring parsers hand on)
        import copy
        for air in list(picked):
            # (only defaults whose plain rendering is what doctrans itself would write, under a declared type)
            if air["params"] and air["params"][0]["def"] in ("intPos", "boolT", "float") and air["params"][0]["typ"] != "none":
                v = copy.deepcopy(air)
                v["params"][0]["dann"] = "same"
                v["params"][0]["dstop"] = True
                picked.append(v)
        lengths = range(40, 104) if thorough else range(50, 98)
        for length in lengths:
            tb = D.sweep_table(length)
            for kind in kinds:
                for o in kind_opts(kind, False)[:1] if kind not in ("function", "method") else [x for x in kind_opts(kind, False) if x["dd"]][:2]:
                    oo = dict(o, dd=True, wrap=True)
                    for air in picked:
                        add(tb, air, [("emit", kind, oo), ("parse",)])
                        if air["params"] and air["params"][0]["dann"] == "same":
                            # default text off: the sentence that came in with the prose has to go, wherever the line breaks
                            add(tb, air, [("emit", kind, dict(oo, dd=False)), ("parse",)])

    if prop == "C01":
        roundtrips(DOC)
        sweep(DOC)
    elif prop == "C02":
        roundtrips(("class",))
        sweep(("class",))
    elif prop == "C03":
        roundtrips(("function", "method"))
        sweep(("function", "method"))
    elif prop == "C04":
        roundtrips(("argparse",))
        sweep(("argparse",))
        TK = D.kwargs_named_table()
        for o in kind_opts("argparse", False):
            for air in single:
                if air["params"] and air["params"][0]["name"] == "p1" and air["params"][0]["typ"] in ("str", "int", "float", "bool"):
                    add(TK, air, [("emit", "argparse", o), ("parse",)])
    elif prop == "C06":
        roundtrips(("class", "function", "method", "argparse"), view=True, files_every=(3 if thorough else 12))
    elif prop == "C08":
        for kind in KINDS:
            opts = kind_opts(kind, thorough)
            many = len(opts) > 8          # function / method in thorough: 144 option records
            for oi, o in enumerate(opts):
                acts = [("emit", kind, o), ("parse",), ("emit", kind, o), ("parse",), ("emit", kind, o), ("parse",)]
                for ti, tb in enumerate(ts if thorough else (T0, T1)):
                    for j, air in enumerate(single):
                        if many and (ti > 0 or j % 4 != oi % 4):
                            continue      # every option record on a quarter of the single-slot domain with one table
                        add(tb, air, acts)
                if not thorough:
                    for air in single[:: 3]:
                        add(TL, air, acts)
                for j, air in enumerate(tri_s[: (len(tri_s) if thorough else 300)]):
                    if many and j % len(opts) != oi:
                        continue
                    add(ts[j % len(ts)], air, acts)
                for j, air in enumerate(wide[: (len(wide) if thorough else 200)]):
                    if many and j % len(opts) != oi:
                        continue
                    add(ts[j % len(ts)], air, acts)
    elif prop == "C05":
        pairs = [(a, b) for a in KINDS for b in KINDS if a != b]
        triples = [(a, b, c) for a in KINDS for b in KINDS for c in KINDS if len({a, b, c}) == 3]
        base_irs = single + (tri_s[:2000] if thorough else tri_s[:200]) + (wide[:1500] if thorough else wide[:150])
        chains = pairs + triples

        def o_for(kind):
            o = {"dd": True, "wrap": True}
            if kind == "method":
                o["ftype"] = "self"
            return o

        per_ir = 252 if thorough else 10
        for j, air in enumerate(base_irs):
            sel = chains if per_ir >= len(chains) else [chains[(j * per_ir + x * 25 + j // 7) % len(chains)] for x in range(per_ir)]
            if thorough and j >= 400:
                sel = rnd.sample(chains, 24)
            for ch in sel:
                acts = []
                for kind in ch:
                    acts += [("emit", kind, o_for(kind)), ("parse",)]
                add(ts[j % len(ts)], air, acts)
                scs[-1]["mode"] = "chain"
        # chains that are always exercised (they carry known findings which sampling would reach only in the thorough tier)
        for j, air in enumerate(single):
            ps = air["params"]
            if len(ps) == 1 and ps[0]["typ"] in ("float", "bool", "int") and ps[0]["def"] == "absent" and ps[0]["dbase"] == "own" and not air["ret"]["present"]:
                for ch in (("function", "rest", "argparse"), ("method", "rest", "argparse")):
                    acts = []
                    for kind in ch:
                        acts += [("emit", kind, o_for(kind)), ("parse",)]
                    add(ts[j % 2], air, acts)
                    scs[-1]["mode"] = "chain"
    else:
        raise ValueError(prop)
    return scs


# ---------------------------------------------------------------------------------------------- run

def run_scenarios_env(scs, env_extra):
    """Run scenarios in a fresh interpreter with extra environment (C18: DOCTRANS_LINE_LENGTH is read at import)."""
    d = scratch("wk-")
    inp, outp = os.path.join(d, "in.json"), os.path.join(d, "out.json")
    with open(inp, "w") as f:
        json.dump(scs, f)
    p = subprocess.run([PY, "-m", "vf.convert_worker", inp, outp], cwd=VERIF, env=child_env(**env_extra),
                       stdout=subprocess.PIPE, stderr=subprocess.STDOUT, text=True)
    if p.returncode != 0 or not os.path.exists(outp):
        return None, p.stdout[-3000:]
    with open(outp) as f:
        return json.load(f), ""


def sha(x):
    return hashlib.sha256(json.dumps(x, sort_keys=True).encode()).hexdigest()[:10]
