"""C16: bodies carried verbatim.  Body.tla enumerates bodies (token sequences up to length 4) and states Verbatim /
ReturnOnce; each body is rendered to real statements, pushed through parse + emit to the same kind and name (and through
emit.class_(emit_call=True) for the __call__ re-homing), and TLC validates the observed token sequence (BodyTrace.tla)."""
import ast
import json
import os
import random
import traceback
from multiprocessing import Pool

from . import findings as F
from . import runner as R
from . import tlc
from .common import NCPU, Timer, import_doctrans, scratch, seed, tier

PARAMS = ("dataset_name", "epochs")
TEMPLATES = {
    "assign": "total_{i} = len(dataset_name) * epochs",
    "callkw": "helper_{i}(dataset_name=dataset_name, epochs=3, other=obj_{i}.epochs)",
    "loop": "for idx_{i} in range(epochs):\n    acc_{i} = idx_{i}",
    "ifret": "if epochs > {i}:\n    return None",
    "nested": "def inner_{i}(epochs):\n    return epochs",
    "compr": "squares_{i} = [epochs for epochs in range({i})]",
    "strexpr": "'just a string {i}'",
    "annassign": "count_{i}: int = len(dataset_name) * epochs",
    "bareann": "pending_{i}: list",
    "ret": "return (dataset_name, {i})",
    "bareret": "return",
    "parserassign": "argument_parser = wrap_{i}(argument_parser)",
}
# occurrences of parameter names that really refer to the parameter (Python scoping), per token
PARAM_REFS = {"annassign": {"dataset_name": 1, "epochs": 1}, "bareann": {}, "assign": {"dataset_name": 1, "epochs": 1}, "callkw": {"dataset_name": 1}, "loop": {"epochs": 1}, "ifret": {"epochs": 1},
              "nested": {}, "compr": {}, "strexpr": {}, "ret": {"dataset_name": 1}, "bareret": {}, "parserassign": {}}
SHADOWED = {"nested": {"epochs": 1}, "compr": {"epochs": 1}}     # Name nodes named like a parameter but bound elsewhere

FN_HEAD = 'def f(dataset_name: str = "mnist", epochs: int = 5):\n    """\n    Train the model.\n\n    :param dataset_name: name of dataset.\n\n    :param epochs: number of epochs.\n    """\n'
ARG_HEAD = ('def set_cli_args(argument_parser):\n    """\n    Set CLI arguments\n\n    :param argument_parser: argument parser\n    :type argument_parser: ```ArgumentParser```\n\n'
            '    :returns: argument_parser\n    :rtype: ```ArgumentParser```\n    """\n    argument_parser.description = "Train the model."\n'
            '    argument_parser.add_argument("--dataset_name", help="name of dataset.", required=True, default="mnist")\n')
ARG_TAIL = '    argument_parser.add_argument("--epochs", type=int, help="number of epochs.", required=True, default=5)\n'


def indent(s):
    return "\n".join("    " + x for x in s.splitlines())


def stmt(tok, i):
    return TEMPLATES[tok].format(i=i)


def source(kind, body):
    stmts = [indent(stmt(t, i)) for i, t in enumerate(body, 1)]
    if kind == "function":
        return FN_HEAD + ("\n".join(stmts) + "\n" if stmts else "")
    half = len(stmts) // 2
    return ARG_HEAD + "".join(s + "\n" for s in stmts[:half]) + ARG_TAIL + "".join(s + "\n" for s in stmts[half:]) + "    return argument_parser\n"


def classify(stmts, body):
    """Map output statements to tokens via the templates (by ast.dump)."""
    table = {}
    for i, t in enumerate(body, 1):
        table[ast.dump(ast.parse(stmt(t, i)).body[0])] = (t, i)
    out, last = [], {}
    for st in stmts:
        hit = table.get(ast.dump(st))
        if hit is None:
            # a re-generated `return (dataset_name, i)` may come back unparenthesised etc.: compare unparsed text
            for i, t in enumerate(body, 1):
                try:
                    if ast.unparse(st) == ast.unparse(ast.parse(stmt(t, i)).body[0]):
                        hit = (t, i)
                        break
                except Exception:
                    pass
        if hit is None:
            out.append("other")
            continue
        out.append(hit[0])
    return out


def is_doc(st):
    return isinstance(st, ast.Expr) and isinstance(st.value, ast.Constant) and isinstance(st.value.value, str) and \
        ("Train the model" in st.value.value or "Set CLI arguments" in st.value.value)


def run_body(rec):
    import_doctrans()
    from doctrans import emit, parse

    kind, body = rec["kind"], rec["body"]
    out = {"id": rec["id"], "kind": kind, "body": body, "exc": "none", "out": [], "call": {"exc": "skipped", "rewritten": [], "params": []},
           "again": {"exc": "skipped", "out": [], "out2": []}}
    src = source(kind, body)
    out["src"] = src
    try:
        fd = ast.parse(src).body[0]
        if kind == "function":
            ir = parse.function(fd)
            node = emit.function(ir, function_name="f", function_type="static", emit_default_doc=False)
            node = ast.parse(ast.unparse(ast.fix_missing_locations(node))).body[0]
            stmts = [s for s in node.body if not is_doc(s)]
        else:
            ir = parse.argparse_ast(fd, function_name="set_cli_args")
            node = emit.argparse_function(ir, function_name="set_cli_args", function_type="static")
            node = ast.parse(ast.unparse(ast.fix_missing_locations(node))).body[0]
            stmts = []
            for i, s in enumerate(node.body):
                if is_doc(s):
                    continue
                d = ast.unparse(s)
                if d.startswith("argument_parser.add_argument(") or d.startswith("argument_parser.description ="):
                    continue
                if i == len(node.body) - 1 and d == "return argument_parser":
                    continue
                stmts.append(s)
        out["out"] = classify(stmts, body)
        out["emitted"] = ast.unparse(node)
    except Exception as e:
        out["exc"] = type(e).__name__
        out["trace"] = traceback.format_exc(limit=5)
    if kind == "function" and out["exc"] == "none":
        # Body.tla Rehome ; Convert: the description a class was made from still converts as before
        try:
            def fn_tokens(ir_):
                n_ = emit.function(ir_, function_name="f", function_type="static", emit_default_doc=False)
                n_ = ast.parse(ast.unparse(ast.fix_missing_locations(n_))).body[0]
                return classify([s_ for s_ in n_.body if not is_doc(s_)], body)

            ir1 = parse.function(ast.parse(src).body[0])
            emit.class_(ir1, class_name="ConfigClass", emit_call=True)
            o1 = fn_tokens(ir1)
            ir2 = parse.function(ast.parse(src).body[0])
            emit.class_(ir2, class_name="ConfigClass", emit_call=False)
            emit.argparse_function(ir2, function_name="set_cli_args", function_type="static")
            out["again"] = {"exc": "none", "out": o1, "out2": fn_tokens(ir2)}
        except Exception as e:
            out["again"] = {"exc": type(e).__name__, "out": [], "out2": []}
            out["again_trace"] = traceback.format_exc(limit=5)
    if kind == "function" and rec.get("call", True):
        try:
            ir = parse.function(ast.parse(src).body[0])
            cls = emit.class_(ir, class_name="ConfigClass", emit_call=True)
            cls = ast.parse(ast.unparse(ast.fix_missing_locations(cls))).body[0]
            call = next((n for n in cls.body if isinstance(n, ast.FunctionDef) and n.name == "__call__"), None)
            want_refs, shadowed = {}, {}
            for t in body:
                for n, c in PARAM_REFS[t].items():
                    want_refs[n] = want_refs.get(n, 0) + c
                for n, c in SHADOWED.get(t, {}).items():
                    shadowed[n] = shadowed.get(n, 0) + c
            rewritten = set()
            params = {"ParamRef"} if want_refs else set()
            if call is None:
                if want_refs:
                    out["call"] = {"exc": "none", "rewritten": ["NoCallMethod"], "params": sorted(params)}
                else:
                    out["call"] = {"exc": "none", "rewritten": [], "params": []}
            else:
                got = {}
                for n in ast.walk(call):
                    if isinstance(n, ast.Attribute) and isinstance(n.value, ast.Name) and n.value.id == "self":
                        got[n.attr] = got.get(n.attr, 0) + 1
                    if isinstance(n, ast.keyword) and n.arg is not None and n.arg not in ("dataset_name", "epochs", "other"):
                        rewritten.add("KwArgName")
                for n, c in got.items():
                    if n in PARAMS:
                        w = want_refs.get(n, 0)
                        if c >= w and w:
                            rewritten.add("ParamRef")
                        if c > w:
                            rewritten.add("Shadowed" if shadowed.get(n) else "Extra")
                        if c < w:
                            rewritten.add("ParamRefMissed")
                    else:
                        rewritten.add("OtherName")
                for n, w in want_refs.items():
                    if got.get(n, 0) == 0:
                        rewritten.add("ParamRefMissed")
                        rewritten.discard("ParamRef") if all(got.get(m, 0) == 0 for m in want_refs) else None
                out["call"] = {"exc": "none", "rewritten": sorted(rewritten), "params": sorted(params)}
                out["call_src"] = ast.unparse(call)
        except Exception as e:
            out["call"] = {"exc": type(e).__name__, "rewritten": [], "params": []}
            out["call_trace"] = traceback.format_exc(limit=5)
    return out


def run(prop="C16", propose=False, replay=None):
    timer = Timer()
    thorough = tier() == "thorough"
    rnd = random.Random(seed() + 16)
    # thorough: bodies of up to five statements (104k bodies), all of them realised
    mcs = [tlc.model_check("Body.tla", "Body_structural5.cfg" if thorough else "Body_structural.cfg", workers=(16 if thorough else 4))]
    d = scratch("body-")
    tlc.export("BodyExport.tla", "BodyExport5.cfg" if thorough else "BodyExport.cfg", d)
    rows = tlc.read_ndjson(os.path.join(d, "body.ndjson"))
    if not thorough:
        short = [r for r in rows if len(r["body"]) <= 2]
        longer = [r for r in rows if len(r["body"]) > 2]
        rows = short + rnd.sample(longer, 1500)
    recs = [{"id": "b%d" % i, "kind": r["kind"], "body": list(r["body"])} for i, r in enumerate(rows)]
    if replay:
        with open(replay) as f:
            rp = json.load(f)["record"]
        recs = [{"id": "b0", "kind": rp["kind"], "body": rp["body"]}]
    with Pool(NCPU) as pool:
        res = pool.map(run_body, recs, chunksize=100)
    traces = [{k: r[k] for k in ("id", "kind", "body", "exc", "out", "call", "again")} for r in res]
    fails, stats = tlc.validate_traces("BodyTrace.tla", "BodyTrace5.cfg" if thorough else "BodyTrace.cfg", traces, shards=(16 if thorough else 8))
    matcher = F.Matcher(prop)
    violations, unmatched = [], []
    by = {r["id"]: r for r in res}
    for tid, fs in fails.items():
        for (_, cl, _) in fs:
            r = by[tid]
            b = r["body"]
            feat = {"k": "body", "cl": cl, "kind": r["kind"], "first": b[0] if b else "none", "second": b[1] if len(b) > 1 else "none",
                    "last": b[-1] if b else "none", "has_ret": "ret" in b, "ret_last": bool(b) and b[-1] == "ret", "nret": b.count("ret"),
                    "has": sorted(set(b)), "exc": r["exc"], "call_exc": r["call"]["exc"], "rewritten": r["call"]["rewritten"],
                    "out_other": "other" in r["out"], "len": len(b), "ret_not_last": ("ret" in b and b[-1] != "ret"),
                    "has_shadow": ("nested" in b or "compr" in b), "multi_ret": b.count("ret") > 1, "comps": []}
            if matcher.match(feat) is None:
                if propose:
                    unmatched.append(feat)
                    continue
                path = R.write_replay(prop, "%s-%s" % (tid, cl), {"property": prop, "clause": cl, "features": feat, "record": r})
                violations.append((path, "%s %s body=%s out=%s call=%s" % (cl, r["kind"], b, r["out"], r["call"])))
    for r in mcs:
        if not r["ok"]:
            violations.append((R.write_replay(prop, "mc-" + r["cfg"], r), "TLC: %s violated in %s" % (r["violated"], r["cfg"])))
    if propose:
        from collections import Counter

        c = Counter(json.dumps({k: f[k] for k in ("cl", "kind", "first", "ret_not_last", "has_shadow", "multi_ret", "exc", "call_exc", "rewritten", "out_other")}, sort_keys=True) for f in unmatched)
        for k, n in c.most_common(80):
            print(n, k)
        print("unmatched", len(unmatched), "failing traces", len(fails), "of", len(traces))
        return 0
    if replay:
        print(json.dumps({"fails": fails, "record": res[0]}, default=str)[:4000])
        return 1 if violations else 0
    cov = R.mc_summary(mcs)
    cov["states"] += stats["distinct"]
    cov["transitions"] += stats["states"]
    cov.update({"traces_validated_against_impl": len(traces), "bodies": len(recs), "failing_traces": len(fails), "known_findings_matched": len(matcher.hits),
                "stale_findings": matcher.stale(), "exhaustive": thorough,
                "rule": "every body of Body.tla up to 2 statements and a sample of the bodies of 3-4 statements (thorough: every body of up to 5 statements) over 9 function / 8 argparse "
                        "statement tokens; parse + emit to the same kind and name; __call__ re-homing with labelled names; the same conversion again "
                        "after a class (with and without __call__) and an argparse function were made from the same description",
                "samples": [{k: v for k, v in r.items() if k in ("kind", "body", "out", "call")} for r in res[:: max(1, len(res) // 3)][:3]]})
    return R.finish(prop, "model_checking", cov, timer, violations[:200], matcher.report_lines(),
                    ["statements are instances of 10 templates; order among extra statements of an argparse function is judged, their position "
                     "relative to the generated add_argument calls is not (D15)",
                     "parameter references are decided by Python scoping (D14): names bound by a nested function's parameters or a comprehension target are not"])
