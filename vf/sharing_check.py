"""C13: sequences of emit / parse calls sharing one IR object or one AST (Sharing.tla + SharingTrace.tla)."""
import ast
import hashlib
import itertools
import json
import random
import traceback
from collections import OrderedDict
from copy import deepcopy
from multiprocessing import Pool

from . import findings as F
from . import runner as R
from . import tlc
from .common import NCPU, Timer, import_doctrans, seed, tier

EMIT_OPS = ("class", "class_call", "function", "argparse", "rest", "numpydoc", "google")
PARSE_OPS = ("parse_function", "parse_class", "parse_argparse")
NONE_STR = "```(None)```"

FUNC_SRC = '''
def f(dataset_name: str = "mnist", epochs: int = 5, **kwargs) -> int:
    """
    Train the model.

    :param dataset_name: name of dataset.

    :param epochs: number of epochs.

    :param kwargs: passed on

    :returns: the score
    """
    total = len(dataset_name) * epochs
    for _ in range(epochs):
        total += 1
    return total
'''
CLASS_SRC = '''
class C(object):
    """
    Train the model.

    :cvar dataset_name: name of dataset.
    """
    dataset_name: str = "mnist"

    def __init__(self, epochs: int = 5, verbose=None):
        """
        :param epochs: number of epochs.
        """
        self.epochs = epochs
'''


# the same definitions without docstrings (undocumented code is parsed too; `body[1:]` and `body` are different lists)
FUNC_NODOC_SRC = '''
def f(dataset_name: str = "mnist", epochs: int = 5, **kwargs) -> int:
    total = len(dataset_name) * epochs
    return total
'''
CLASS_NODOC_SRC = '''
class C(object):
    dataset_name: str = "mnist"
    limit = 3

    def __init__(self, epochs: int = 5, verbose=None):
        self.epochs = epochs
'''
# decorated / nested: the definition is not the first statement of its module, methods are cls / self
CLASS_METHODS_SRC = '''
class C(object):
    """
    Train the model.

    :cvar dataset_name: name of dataset.
    """
    dataset_name: str = "mnist"

    def __init__(self, epochs: int = 5):
        self.epochs = epochs

    @classmethod
    def make(cls, epochs: int = 5) -> int:
        """
        :param epochs: number of epochs.
        """
        return epochs
'''
ARGPARSE_SRC = '''
def set_cli_args(argument_parser):
    """
    Set CLI arguments

    :param argument_parser: argument parser
    :type argument_parser: ```ArgumentParser```

    :returns: argument_parser
    :rtype: ```ArgumentParser```
    """
    argument_parser.description = "Train the model."
    argument_parser.add_argument("--dataset_name", help="name of dataset.", required=True, default="mnist")
    extra = 1
    argument_parser.add_argument("--epochs", type=int, help="number of epochs.", required=True, default=5)
    return argument_parser
'''
ARGPARSE_NODOC_SRC = '''
def set_cli_args(argument_parser):
    argument_parser.description = "Train the model."
    argument_parser.add_argument("--dataset_name", help="name of dataset.", required=True, default="mnist")
    extra = 1
    argument_parser.add_argument("--epochs", type=int, help="number of epochs.", required=True, default=5)
    return argument_parser
'''
AST_SHAPES = {"doc": (FUNC_SRC, CLASS_SRC, ARGPARSE_SRC), "nodoc": (FUNC_NODOC_SRC, CLASS_NODOC_SRC, ARGPARSE_NODOC_SRC),
              "methods": (FUNC_SRC, CLASS_METHODS_SRC, ARGPARSE_SRC)}


def base_irs():
    import_doctrans()
    from doctrans import parse

    def plain(ret):
        ir = {"name": None, "type": "static", "doc": "Train the model.",
              "params": OrderedDict([("dataset_name", {"typ": "str", "doc": "name of dataset.", "default": "mnist"}),
                                     ("limit", {"typ": "Optional[int]", "doc": "upper bound", "default": NONE_STR}),
                                     ("extra", {"default": 5}),
                                     ("untyped", {"doc": "no type here"})]), "returns": None}
        if ret:
            ir["returns"] = OrderedDict([("return_type", {"typ": "int", "doc": "the score.", "default": "```len(dataset_name)```"})])
        return ir

    with_body = parse.function(ast.parse(FUNC_SRC).body[0])
    no_ret_body = deepcopy(with_body)
    no_ret_body["returns"] = None
    return {"plain": plain(False), "plain_ret": plain(True), "body_ret": with_body, "body": no_ret_body}


def digest(x):
    return hashlib.sha256(x.encode("utf8", "replace")).hexdigest()[:16]


def canon_ir(ir):
    def c(v):
        if isinstance(v, ast.AST):
            return ("ast", ast.dump(v))
        if isinstance(v, dict):
            return tuple((k, c(x)) for k, x in v.items())
        if isinstance(v, (list, tuple)):
            return tuple(c(x) for x in v)
        return (type(v).__name__, repr(v))

    return repr(c(ir))


def call(op, obj):
    from doctrans import emit, parse
    from doctrans.source_transformer import to_code

    if op == "class":
        return to_code(emit.class_(obj, class_name="ConfigClass"))
    if op == "class_call":
        return to_code(emit.class_(obj, class_name="ConfigClass", emit_call=True))
    if op == "function":
        return to_code(emit.function(obj, function_name=obj.get("name") or "f", function_type="static"))
    if op == "argparse":
        return to_code(emit.argparse_function(obj))
    if op in ("rest", "numpydoc", "google"):
        return emit.docstring(obj, docstring_format=op)
    if op == "parse_function":
        return canon_ir(parse.function(obj["function"]))
    if op == "parse_class":
        return canon_ir(parse.class_(obj["class"], merge_inner_function="__init__"))
    if op == "parse_argparse":
        return canon_ir(parse.argparse_ast(obj["argparse"]))
    raise ValueError(op)


def taints(shared, pristine, is_ast):
    if is_ast:
        return [] if all(ast.dump(shared[k]) == ast.dump(pristine[k]) for k in shared) else ["astChanged"]
    out = set()
    if canon_ir(shared) == canon_ir(pristine):
        return []
    sp, pp = shared.get("params") or {}, pristine.get("params") or {}
    if ("return_type" in sp and "return_type" not in pp) or (pristine.get("returns") and not shared.get("returns")):
        out.add("retMoved")
    for n, p in pp.items():
        q = sp.get(n, {})
        if q.get("doc") != p.get("doc") and "efault" in str(q.get("doc")):
            out.add("docDefaults")
        if "default" in p and q.get("default", "\0") != p["default"] and repr(q.get("default")) != repr(p["default"]):
            out.add("noneNorm")
        if set(q) - set(p):
            out.add("typAny")
    pb = (pristine.get("_internal") or {}).get("body") or []
    sb = (shared.get("_internal") or {}).get("body") or []
    if [ast.dump(x) for x in pb] != [ast.dump(x) for x in sb]:
        out.add("bodyRenamed")
    pr, sr = pristine.get("returns") or {}, shared.get("returns") or {}
    if pr and sr and canon_ir(pr) != canon_ir(sr):
        out.add("docDefaults" if "efault" in str(sr) and "efault" not in str(pr) else "noneNorm")
    return sorted(out) or ["other"]


def run_seq(sc):
    import_doctrans()
    try:
        if sc["kind"] == "ast":
            fsrc, csrc, asrc = AST_SHAPES[sc.get("shape", "doc")]
            pristine = {"function": ast.parse(fsrc).body[0], "class": ast.parse(csrc).body[0], "argparse": ast.parse(asrc).body[0]}
        else:
            pristine = sc["ir"]
        shared = deepcopy(pristine)
        evs = []
        for op in sc["ops"]:
            ev = {"op": op, "exc": "none", "same": True, "taints": []}
            try:
                fresh = call(op, deepcopy(pristine))
                got = call(op, shared)
                ev["same"] = got == fresh
                if not ev["same"]:
                    ev["got"], ev["fresh"] = got[-400:], fresh[-400:]
            except Exception as e:
                ev["exc"] = type(e).__name__
                ev["trace"] = traceback.format_exc(limit=4)
            ev["taints"] = taints(shared, pristine, sc["kind"] == "ast")
            evs.append(ev)
        return {"id": sc["id"], "ev": evs}
    except Exception:
        return {"id": sc["id"], "driver_exc": traceback.format_exc()}


def run(prop="C13", propose=False, replay=None):
    timer = Timer()
    thorough = tier() == "thorough"
    rnd = random.Random(seed() + 13)
    mcs = [tlc.model_check("Sharing.tla", "Sharing_copy5.cfg" if thorough else "Sharing_copy.cfg", workers=(16 if thorough else 4))]
    irs = base_irs()
    scs = []
    seqs = [s for n in (1, 2, 3) for s in itertools.product(EMIT_OPS, repeat=n)]
    l4 = list(itertools.product(EMIT_OPS, repeat=4))
    seqs += l4 if thorough else rnd.sample(l4, 300)
    if thorough:      # and every sequence of five calls on the two descriptions that carry a return entry
        l5 = list(itertools.product(EMIT_OPS, repeat=5))
    for name, ir in irs.items():
        for s in seqs + (l5 if thorough and name in ("plain_ret", "body_ret") else []):
            scs.append({"kind": "ir", "irname": name, "ir": ir, "ops": list(s)})
    for shape in AST_SHAPES:
        for n in ((1, 2, 3, 4, 5) if thorough else (1, 2, 3)):
            for s in itertools.product(PARSE_OPS, repeat=n):
                scs.append({"kind": "ast", "irname": "ast" if shape == "doc" else "ast-" + shape, "shape": shape, "ops": list(s)})
    if replay:
        with open(replay) as f:
            rp = json.load(f)["scenario"]
        scs = [dict(rp, ir=irs.get(rp["irname"]))]
    for i, s in enumerate(scs):
        s["id"] = "q%d" % i
    with Pool(NCPU) as pool:
        res = pool.map(run_seq, scs, chunksize=50)
    for r in res:
        if "driver_exc" in r:
            raise RuntimeError(r["driver_exc"])
    traces = [{"id": r["id"], "ev": [{k: e[k] for k in ("op", "exc", "same", "taints")} for e in r["ev"]]} for r in res]
    fails, stats = tlc.validate_traces("SharingTrace.tla", "SharingTrace.cfg", traces, shards=8)
    matcher = F.Matcher(prop)
    violations, unmatched = [], []
    by, scby = {r["id"]: r for r in res}, {s["id"]: s for s in scs}
    for tid, fs in fails.items():
        for (step, cl, op) in fs:
            sc = scby[tid]
            ev = by[tid]["ev"][step - 1]
            feat = {"k": "sharing", "cl": cl, "op": op, "prev": sc["ops"][:step - 1][-1] if step > 1 else "none", "ir": sc["irname"],
                    "taints": ev["taints"], "exc": ev["exc"], "comps": []}
            if matcher.match(feat) is None:
                if propose:
                    unmatched.append(feat)
                    continue
                path = R.write_replay(prop, "%s-%d-%s" % (tid, step, cl), {"property": prop, "clause": cl, "step": step, "features": feat,
                                      "scenario": {k: v for k, v in sc.items() if k != "ir"}, "events": by[tid]["ev"]})
                violations.append((path, "%s at call %d (%s) of %s on %s: taints=%s" % (cl, step, op, sc["ops"], sc["irname"], ev["taints"])))
    for r in mcs:
        if not r["ok"]:
            violations.append((R.write_replay(prop, "mc-" + r["cfg"], r), "TLC: %s violated in %s" % (r["violated"], r["cfg"])))
    if propose:
        from collections import Counter

        c = Counter(json.dumps({k: v for k, v in f.items() if k != "comps"}, sort_keys=True) for f in unmatched)
        for k, n in c.most_common(60):
            print(n, k)
        print("unmatched", len(unmatched), "failing traces", len(fails), "of", len(traces))
        return 0
    if replay:
        print(json.dumps({"fails": fails, "events": res[0]["ev"]}, default=str)[:4000])
        return 1 if violations else 0
    cov = R.mc_summary(mcs)
    cov["states"] += stats["distinct"]
    cov["transitions"] += stats["states"]
    cov.update({"traces_validated_against_impl": len(traces), "calls": sum(len(t["ev"]) for t in traces), "failing_traces": len(fails),
                "known_findings_matched": len(matcher.hits), "stale_findings": matcher.stale(), "exhaustive": thorough,
                "rule": "all sequences with repetition up to length 3 (and all / a sample of length 4) over 7 emitters on one shared IR x 4 IRs "
                        "(with/without return, with/without carried body); all sequences up to length 4 of parse calls on one shared AST",
                "samples": [traces[0], traces[len(traces) // 2], traces[-1]]})
    return R.finish(prop, "model_checking", cov, timer, violations[:200], matcher.report_lines(),
                    ["outputs compared as to_code text / docstring text / canonical IR serialisation (D18)",
                     "taints are computed by comparing the shared object with a pristine deep copy"])
