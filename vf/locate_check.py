"""C15: dotted locations.  Locate.tla model-checked; every (module, path) of the TLC-exported domain is rendered to
Python source, resolved by the real find_in_ast / RewriteAtQuery, and the node addresses (computed by an independent
walk over `ast`) are validated by TLC against Resolve (LocateTrace.tla)."""
import ast
import json
import os
import random
import traceback
from copy import deepcopy
from multiprocessing import Pool

from . import findings as F
from . import runner as R
from . import tlc
from .common import NCPU, Timer, import_doctrans, scratch, seed, tier


def render(items, indent="", real=False, in_class=False):
    """real: functions inside a class are methods (self first), the last positional and the later keyword-only arguments have defaults."""
    out = []
    for it in items:
        k, n = it["k"], it["n"]
        if k == "assign":
            out.append("%s%s = 5" % (indent, n))
        elif k == "annassign":
            out.append("%s%s: int = 5" % (indent, n))
        elif k == "other":
            out.append("%simport os" % indent)
        elif k == "func":
            args = list(it["args"])
            kwo = list(it["kwonly"])
            if real:
                if args:
                    args[-1] += "=1"
                kwo = [x + ("=2" if j else "") for j, x in enumerate(kwo)]
                if in_class:
                    args = ["self"] + args
            if kwo:
                args += ["*"] + kwo
            out.append("%sdef %s(%s):" % (indent, n, ", ".join(args)))
            out.append("%s    pass" % indent)
        elif k == "class":
            out.append("%sclass %s(object):" % (indent, n))
            body = render(it["body"], indent + "    ", real, True)
            out += body if body else ["%s    pass" % indent]
        else:
            raise ValueError(k)
    return out


def source_of(mod, real=False):
    return "\n".join(render(mod, real=real)) + "\n"


def _positional(st):
    """The addressable positional arguments of a FunctionDef: a leading self / cls is not one of them."""
    a = st.args.args
    return a[1:] if a and a[0].arg in ("self", "cls") else a


def addresses(tree):
    """id(node) -> address for every addressable node (independent of doctrans)."""
    out = {}

    def walk(body, addr):
        for i, st in enumerate(body, 1):
            a = addr + [i]
            out[id(st)] = a
            if isinstance(st, ast.FunctionDef):
                for j, arg in enumerate(_positional(st), 1):
                    out[id(arg)] = a + [100 + j]
                for j, arg in enumerate(st.args.kwonlyargs, 1):
                    out[id(arg)] = a + [200 + j]
            elif isinstance(st, ast.ClassDef):
                walk(st.body, a)

    walk(tree.body, [])
    return out


def snapshot(tree):
    """address -> structural dump of the node *itself* (children at other addresses masked)."""
    out = {}

    def dump_arg(a):
        return ("arg", a.arg, ast.dump(a.annotation) if a.annotation else None)

    def walk(body, addr):
        for i, st in enumerate(body, 1):
            a = tuple(addr + [i])
            if isinstance(st, ast.FunctionDef):
                out[a] = ("func", st.name, len(st.args.args), len(st.args.kwonlyargs), ast.dump(ast.Module(body=st.body, type_ignores=[])))
                for j, arg in enumerate(_positional(st), 1):
                    out[a + (100 + j,)] = dump_arg(arg)
                for j, arg in enumerate(st.args.kwonlyargs, 1):
                    out[a + (200 + j,)] = dump_arg(arg)
            elif isinstance(st, ast.ClassDef):
                out[a] = ("class", st.name, len(st.body))
                walk(st.body, list(a))
            else:
                out[a] = ("stmt", ast.dump(st))

    walk(tree.body, [])
    return out


def one(sc):
    import_doctrans()
    from doctrans.ast_utils import RewriteAtQuery, find_in_ast
    from doctrans.source_transformer import ast_parse

    src = source_of(sc["mod"], real=bool(sc.get("real")))
    rec = {"id": sc["id"], "mod": sc["mod"], "path": sc["path"], "fexc": "none", "found": [0], "rexc": "none", "changed": [], "replaced": False}
    try:
        tree = ast_parse(src)
        addr = addresses(tree)
        node = find_in_ast(list(sc["path"]), tree)
        if node is None:
            rec["found"] = [0]
        elif node is tree:
            rec["found"] = []
        else:
            rec["found"] = addr.get(id(node), [999])
    except Exception as e:
        rec["fexc"] = type(e).__name__
        rec["ftrace"] = traceback.format_exc(limit=4)
    try:
        tree = ast_parse(src)
        before = snapshot(tree)
        is_arg = False
        want = sc.get("want")
        marker = ast.arg(arg="zz_marker", annotation=ast.Name("float", ast.Load())) if sc.get("arg_like") else \
            ast.Assign(targets=[ast.Name("zz_marker", ast.Store())], value=ast.Constant(1), lineno=None)
        rw = RewriteAtQuery(search=list(sc["path"]), replacement_node=marker)
        new = rw.visit(tree)
        ast.fix_missing_locations(new)
        after = snapshot(new)
        changed = sorted(a for a in set(before) | set(after) if before.get(a) != after.get(a))
        # a replaced container makes its former children vanish: report the outermost changed addresses only
        outer = [a for a in changed if not any(a[:len(b)] == b and len(b) < len(a) for b in changed)]
        rec["changed"] = [list(a) for a in outer]
        rec["replaced"] = bool(rw.replaced)
        ast.parse(ast.unparse(new))
    except Exception as e:
        rec["rexc"] = type(e).__name__
        rec["rtrace"] = traceback.format_exc(limit=4)
    rec["src"] = src
    return rec


def scenarios(size, limit, rnd):
    d = scratch("loc-")
    tlc.export("LocateExport.tla", "LocateExport_%s.cfg" % size, d)
    rows = tlc.read_ndjson(os.path.join(d, "locate_%s.ndjson" % size))
    scs = []
    for r in rows:
        for p in r["paths"]:
            scs.append({"mod": r["mod"], "path": p})
    if limit and len(scs) > limit:
        scs = rnd.sample(scs, limit)
    for i, s in enumerate(scs):
        s["id"] = "l%d" % i
        s["arg_like"] = _is_arg_path(s["mod"], s["path"])
    return scs


def _is_arg_path(mod, path):
    """Is the addressed node a function argument (then the replacement must be an ast.arg)?"""
    items = mod
    for i, seg in enumerate(path):
        it = next((x for x in items if x["k"] != "other" and x["n"] == seg), None)
        if it is None:
            return False
        if i == len(path) - 1:
            return False
        if it["k"] == "class":
            items = it["body"]
        elif it["k"] == "func":
            return i + 2 == len(path) and path[i + 1] in list(it["args"]) + list(it["kwonly"])
        else:
            return False
    return False


def feat_of(rec, clause):
    mod, path = rec["mod"], rec["path"]
    kinds = []
    items = mod
    target = "none"
    funcs_before = 0
    for i, seg in enumerate(path):
        idx = next((j for j, x in enumerate(items) if x["k"] != "other" and x["n"] == seg), None)
        if idx is None:
            target = "missing"
            break
        if i == 0:
            funcs_before = sum(1 for x in items[:idx] if x["k"] == "func")
        it = items[idx]
        kinds.append(it["k"])
        if i == len(path) - 1:
            target = it["k"]
        elif it["k"] == "class":
            items = it["body"]
        elif it["k"] == "func":
            if i + 2 == len(path) and path[i + 1] in it["args"]:
                target = "arg"
            elif i + 2 == len(path) and path[i + 1] in it["kwonly"]:
                target = "kwarg"
            else:
                target = "missing"
            break
        else:
            target = "missing"
            break
    any_func_before = _func_before(mod, path)
    obs = {"FindExact": "none" if rec["found"] == [0] else "node", "ReplaceExact": len(rec["changed"]),
           "ReplacedFlag": rec["replaced"], "FindNeverRaises": rec["fexc"], "ReplaceNeverRaises": rec["rexc"]}[clause]
    return {"k": "locate", "cl": clause, "target": target, "depth": len(path), "kinds": kinds, "func_before": any_func_before,
            "obs": obs, "comps": []}


def _func_before(mod, path):
    """Does any function definition precede the addressed node in a pre-order walk (the condition of observation O1)?"""
    found = [False]

    def walk(items, prefix, seen_func):
        for it in items:
            if it["k"] == "other":
                continue
            p = prefix + [it["n"]]
            if p == list(path[:len(p)]) and len(p) == len(path):
                found[0] = seen_func[0]
                return True
            if it["k"] == "func":
                if p == list(path[:len(p)]):
                    found[0] = seen_func[0]
                    return True
                seen_func[0] = True
            if it["k"] == "class":
                if walk(it["body"], p, seen_func):
                    return True
        return False

    walk(mod, [], [False])
    return found[0]


def run(prop="C15", propose=False, replay=None):
    timer = Timer()
    thorough = tier() == "thorough"
    rnd = random.Random(seed() + 15)
    mcs = []
    if not replay:
        mcs.append(tlc.model_check("Locate.tla", "Locate_tiny.cfg"))
        if thorough:
            mcs.append(tlc.model_check("Locate.tla", "Locate_small.cfg"))
            mcs.append(tlc.model_check("Locate.tla", "Locate_medium.cfg"))
    if replay:
        with open(replay) as f:
            rp = json.load(f)
        scs = [rp["scenario"]]
    else:
        scs = scenarios("tiny", 0, rnd)
        if thorough:
            extra = scenarios("medium", 120000, rnd)
            for i, s in enumerate(extra):
                s["id"] = "m%d" % i
            scs += extra
    if not replay:
        for i, sc in enumerate(scs):
            sc["real"] = bool(i % 2)       # every other module is rendered with methods (self first) and default values
    with Pool(NCPU) as pool:
        recs = pool.map(one, scs, chunksize=200)
    traces = [{k: v for k, v in r.items() if k not in ("src", "ftrace", "rtrace")} for r in recs]
    cfg = "LocateTrace.cfg"
    fails, stats = tlc.validate_traces("LocateTrace.tla", cfg, traces)
    matcher = F.Matcher(prop)
    violations, unmatched = [], []
    byid = {r["id"]: r for r in recs}
    sc_by = {s["id"]: s for s in scs}
    for tid, fs in fails.items():
        for (_, cl, _) in fs:
            feat = feat_of(byid[tid], cl)
            if matcher.match(feat) is None:
                if propose:
                    unmatched.append(feat)
                    continue
                path = R.write_replay(prop, "%s-%s" % (tid, cl), {"property": prop, "clause": cl, "features": feat,
                                      "scenario": sc_by[tid], "record": byid[tid]})
                violations.append((path, "%s path=%s found=%s changed=%s" % (cl, ".".join(byid[tid]["path"]), byid[tid]["found"], byid[tid]["changed"])))
    for r in mcs:
        if not r["ok"]:
            violations.append((R.write_replay(prop, "mc-" + r["cfg"], r), "TLC: %s violated in %s" % (r["violated"], r["cfg"])))
    if propose:
        from collections import Counter

        c = Counter(json.dumps({k: v for k, v in f.items() if k != "comps"}, sort_keys=True) for f in unmatched)
        for k, n in c.most_common(80):
            print(n, k)
        print("unmatched", len(unmatched), "failing traces", len(fails), "of", len(traces))
        return 0
    if replay:
        print(json.dumps({"fails": fails, "record": recs[0]}, default=str)[:3000])
        return 1 if violations else 0
    cov = R.mc_summary(mcs)
    cov["states"] += stats["distinct"]
    cov["transitions"] += stats["states"]
    cov.update({"traces_validated_against_impl": len(traces), "failing_traces": len(fails), "known_findings_matched": len(matcher.hits),
                "stale_findings": matcher.stale(), "exhaustive": not thorough,
                "rule": "every (module, path) of the TLC-exported Locate domain (tiny: exhaustive; medium: sampled in thorough) x find + replace",
                "samples": [{k: v for k, v in r.items() if k != "mod"} for r in recs[:: max(1, len(recs) // 3)][:3]]})
    return R.finish(prop, "model_checking", cov, timer, violations[:200], matcher.report_lines(),
                    ["module shapes limited to the curated level sets of Locate.tla (nesting <= 3, names a/m/A/B)",
                     "addresses computed by an independent walk over ast (vf/locate_check.py: addresses/snapshot)"])
