"""Python's own view of emitted code (alpha for artefacts).  Imports nothing from doctrans.

A class is exec-uted and read through __annotations__/__dict__; a function through inspect.signature and the
ast of its last `return`; an argparse function is called on a real ArgumentParser and read through its action
table.  Values and annotations are mapped to tokens with the concretisation table in use.
"""
import argparse
import ast
import inspect
import json
import operator
import sys
import typing

from . import domain as D


class _Node:
    """Stub for np / tf / torch...: attribute paths and calls compare by structure."""

    def __init__(self, path, args=None):
        self._p, self._a = path, args

    def __getattr__(self, name):
        if name.startswith("__"):
            raise AttributeError(name)
        return _Node(self._p + "." + name)

    def __call__(self, *a, **k):
        return _Node(self._p, (a, tuple(sorted(k.items()))))

    def __eq__(self, o):
        return isinstance(o, _Node) and (self._p, self._a) == (o._p, o._a)

    def __hash__(self):
        return hash((self._p, repr(self._a)))

    def __repr__(self):
        return "<%s%s>" % (self._p, "" if self._a is None else repr(self._a))


def namespace():
    ns = {k: getattr(typing, k) for k in ("Optional", "List", "Literal", "Union", "Tuple", "Any", "Dict", "Callable")}
    ns.update(np=_Node("np"), tf=_Node("tf"), torch=_Node("torch"), pd=_Node("pd"), tensorflow=_Node("tensorflow"), operator=operator,
              loads=json.loads, identity_deco=(lambda c: c), stdout=sys.stdout, argv=[], alpha=1, NoneType=type(None), ArgumentParser=argparse.ArgumentParser)
    return ns


def _ev(src, ns):
    return eval(compile(ast.parse(src, mode="eval"), "<tok>", "eval"), dict(ns))


def ann_token(table, ann, empty=inspect.Parameter.empty):
    if ann is empty:
        return "empty"
    ns = namespace()
    if isinstance(ann, str):
        return D.a_typ(table, ann)
    for tok, s in list(table["typ"].items()) + list(D.OBS_ONLY_TYP.items()):
        try:
            if _ev(s, ns) == ann:
                return tok
        except Exception:
            continue
    return "other"


def val_token(table, v, typ_toks, is_ret=False, empty=inspect.Parameter.empty):
    """Token of a runtime value."""
    if v is empty:
        return "empty"
    if v is None:
        return "none"
    if isinstance(v, (bool, int, float)):
        return D.a_def(table, True, v, typ_toks, is_ret)
    if isinstance(v, str):
        t = D.a_def(table, True, v, typ_toks, is_ret)
        if t == "none":      # the *string* "None" / "```(None)```" is not the value None
            return "other"
        return t
    # evaluated code expression?
    ns = namespace()
    cands = set()
    for tt in typ_toks:
        cands.add(D.code_expr(table, tt, is_ret))
    cands.update(x for k, x in table["code"].items() if k.startswith("ret") == is_ret)
    for c in cands:
        try:
            if _ev(c, ns) == v and type(_ev(c, ns)) is type(v):
                return "code"
        except Exception:
            continue
    return "other"


def _retexpr_token(table, fn_node, typ_toks, argparse_tuple=False):
    rets = [n for n in fn_node.body if isinstance(n, ast.Return)]
    if not rets or rets[-1].value is None:
        return "none"
    v = rets[-1].value
    if argparse_tuple:
        if isinstance(v, ast.Name):
            return "none"
        if isinstance(v, ast.Tuple) and len(v.elts) == 2:
            v = v.elts[1]
        else:
            return "other"
    src = ast.unparse(v)
    if isinstance(v, ast.Constant) and isinstance(v.value, str):
        t = D.a_code(table, v.value, typ_toks, is_ret=True)
        return {"code": "codeQ", "codeBare": "codeQ", "codeQ": "codeQ"}.get(t, "other")
    t = D.a_code(table, "```%s```" % src, typ_toks, is_ret=True)
    return "code" if t == "code" else "other"


def view_class(table, src, hint):
    ns = namespace()
    exec(compile(src, "<emitted>", "exec"), ns)
    tree = ast.parse(src)
    cls_node = next(n for n in tree.body if isinstance(n, ast.ClassDef))
    cls = ns[cls_node.name]
    rev = {v: k for k, v in table["names"].items()}
    hint_typ = {s["name"]: s["typ"] for s in hint["params"]}
    anns = dict(getattr(cls, "__annotations__", {}))
    order = [n.target.id for n in cls_node.body if isinstance(n, ast.AnnAssign) and isinstance(n.target, ast.Name)]
    order += [t.id for n in cls_node.body if isinstance(n, ast.Assign) for t in n.targets if isinstance(t, ast.Name)]
    attrs = []
    for name in order:
        n = "return_type" if name == "return_type" else rev.get(name, "other:" + name)
        is_ret = name == "return_type"
        tts = (hint["ret"]["typ"],) if is_ret else (hint_typ.get(n, "none"), "none")
        attrs.append({"name": n, "ann": ann_token(table, anns.get(name, inspect.Parameter.empty)),
                      "val": val_token(table, cls.__dict__.get(name, inspect.Parameter.empty), tts, is_ret)})
    return {"attrs": attrs, "hasdoc": bool(cls.__doc__)}


def view_function(table, src, hint, in_class=False):
    ns = namespace()
    exec(compile(src, "<emitted>", "exec"), ns)
    tree = ast.parse(src)
    if in_class:
        cnode = tree.body[0]
        fnode = next(n for n in cnode.body if isinstance(n, ast.FunctionDef))
        fn = ns[cnode.name].__dict__[fnode.name]
    else:
        fnode = next(n for n in tree.body if isinstance(n, ast.FunctionDef))
        fn = ns[fnode.name]
    sig = inspect.signature(fn)
    rev = {v: k for k, v in table["names"].items()}
    hint_typ = {s["name"]: s["typ"] for s in hint["params"]}
    ps = list(sig.parameters.values())
    first = "none"
    if ps and ps[0].name in ("self", "cls"):
        first = ps[0].name
        ps = ps[1:]
    kinds = {inspect.Parameter.POSITIONAL_OR_KEYWORD: "pos", inspect.Parameter.KEYWORD_ONLY: "kwonly",
             inspect.Parameter.VAR_KEYWORD: "kwarg", inspect.Parameter.VAR_POSITIONAL: "vararg",
             inspect.Parameter.POSITIONAL_ONLY: "posonly"}
    params = []
    for p in ps:
        n = rev.get(p.name, "other:" + p.name)
        tts = (hint_typ.get(n, "none"), "none")
        params.append({"name": n, "pk": kinds[p.kind], "ann": ann_token(table, p.annotation),
                       "def": val_token(table, p.default, tts)})
    return {"first": first, "params": params, "retann": ann_token(table, sig.return_annotation, empty=inspect.Signature.empty),
            "retexpr": _retexpr_token(table, fnode, (hint["ret"]["typ"],)), "hasdoc": bool(fn.__doc__)}


_TYPES = {int: "int", float: "float", bool: "bool", str: "str", None: "none", json.loads: "loads"}


def view_argparse(table, src, hint):
    ns = namespace()
    exec(compile(src, "<emitted>", "exec"), ns)
    tree = ast.parse(src)
    fnode = next(n for n in tree.body if isinstance(n, ast.FunctionDef))
    fn = ns[fnode.name]
    parser = argparse.ArgumentParser()
    res = fn(parser)
    returned_parser = res is parser or (isinstance(res, tuple) and len(res) == 2 and res[0] is parser)
    rev = {v: k for k, v in table["names"].items()}
    hint_typ = {s["name"]: s["typ"] for s in hint["params"]}
    opts = []
    for a in parser._actions:
        if isinstance(a, argparse._HelpAction):
            continue
        n = rev.get(a.dest, "other:" + a.dest)
        tts = (hint_typ.get(n, "none"), "none")
        d = val_token(table, a.default, tts) if a.default is not None else "none"
        key = n if n in table["prose"] else None
        if key:
            db, ds, da = D.a_prose(table, key, a.help, d, tts)
        else:
            db, ds, da = ("other" if a.help else "none"), False, "no"
        opts.append({"name": n, "type": _TYPES.get(a.type, "other"), "choices": a.choices is not None,
                     "choices_ok": a.choices is None or tuple(a.choices) in (tuple(table["lit"]), tuple(table["litint"])),
                     "append": isinstance(a, argparse._AppendAction), "required": bool(a.required), "def": d,
                     "dbase": db, "dstop": ds, "dann": da})
    return {"desc": D.a_summary(table, parser.description), "options": opts, "returned_parser": returned_parser,
            "retexpr": _retexpr_token(table, fnode, (hint["ret"]["typ"],), argparse_tuple=True)}
