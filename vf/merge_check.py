"""C07 (parsing is faithful to Python's view) and C12 (determinism): Merge.tla / Process.tla + trace validation.

Definitions are generated from the TLC-exported (signature, docstring) inputs of Merge.tla, decorated with parameter
kinds (positional / keyword-only / **kwargs), annotations, documented types, docstring style and definition kind
(function, method, class + __init__).  Each is executed and read with inspect (Python's view), parsed by doctrans in one
interpreter per PYTHONHASHSEED, and the result is validated by TLC (MergeTrace.tla); the per-process call logs are
validated against Process.tla's memo (ProcessTrace.tla).
"""
import ast
import hashlib
import inspect
import itertools
import json
import os
import random
import subprocess
import sys
import traceback
import typing

from . import findings as F
from . import runner as R
from . import tlc
from .common import NCPU, PY, VERIF, Timer, child_env, scratch, seed, tier

CONCRETE = {"a": "alpha", "b": "beta", "c": "gamma", "yy": "stale_one", "zz": "stale_two"}
PROSE = {"alpha": "the first thing", "beta": "how many of them", "gamma": "where to put it", "kwargs": "forwarded on",
         "size": "the extent of it", "batch_size": "how many at once", "size_limit": "the upper bound on it",
         "width": "the width", "depth": "the depth", "stale_one": "a key passed on", "stale_two": "another key passed on"}
TYP = {"absent": None, "int": "int", "str": "str", "OptInt": "Optional[int]", "float": "float", "bool": "bool"}
# C12: defaults that compare equal across types (0 == 0.0 == False, 1 == 1.0 == True) must stay apart within one process
VARIETY = {"int": (5, 0, 1), "float": (0.5, 0.0, 1.0), "bool": (True, False), "absent": (5, 0.0, True, 1)}
DEFVAL = {"int": 5, "str": "mnist", "OptInt": None, "absent": 5, "float": 0.5, "bool": True}


def def_token(v, present=True):
    if not present:
        return "absent"
    if v is None or v in ("None", "```(None)```", "```None```"):
        return "none"
    if isinstance(v, bool):
        return "other"
    if isinstance(v, int) and v == 5:
        return "intPos"
    if isinstance(v, float) and v == 0.5:
        return "float"
    if v == "mnist":
        return "str"
    return "other"


def typ_token(t):
    if t is None:
        return "absent"
    n = "".join(str(t).split())
    return {"int": "int", "str": "str", "Optional[int]": "OptInt", "float": "float", "Optional[dict]": "OptDict"}.get(n, "other:" + n)


RELATED = {"a": "size", "b": "batch_size", "c": "size_limit", "yy": "stale_one", "zz": "stale_two"}     # suffix / prefix of a neighbour


def decorate(core, rnd, variant, variety=False):
    """core: {"sig": [{n, def}], "doc": [names]} -> scenario dict."""
    conc = RELATED if rnd.random() < 0.3 else CONCRETE
    names = [conc[s["n"]] for s in core["sig"]]
    has_def = [s["def"] == "d" for s in core["sig"]]
    # keyword-only split: positional defaults must form a suffix; keyword-only parameters are free
    split = rnd.choice([3, 3, 2, 1, 0])
    while not all((not has_def[i]) or all(has_def[i:split]) for i in range(split)):
        split = rnd.choice([3, 2, 1, 0])
    params = []
    for i, n in enumerate(names):
        ann = rnd.choice(["absent", "int", "str", "OptInt"] + (["float", "bool"] if variety else []))
        params.append({"n": n, "pk": "pos" if i < split else "kwonly", "ann": ann, "def": (ann if has_def[i] else None)})
        if variety and has_def[i] and ann in VARIETY:
            params[-1]["val"] = rnd.choice(VARIETY[ann])
    kwargs = rnd.choice([None, None, "doc", "undoc"])
    doc = []
    for d in core["doc"]:
        n = conc[d]
        p = next((x for x in params if x["n"] == n), None)
        if p is None:          # documented, not a parameter (Merge.tla DocExtras)
            doc.append({"n": n, "typ": rnd.choice(["absent", "int"])})
            continue
        dt = rnd.choice(["absent", "same", "same", "other"])
        typ = "absent" if dt == "absent" or (dt == "same" and p["ann"] == "absent") else (p["ann"] if dt == "same" else "float")
        doc.append({"n": n, "typ": typ})
        if variety and p["def"] is not None and rnd.random() < 0.6:
            doc[-1]["says"] = repr(p.get("val", DEFVAL[p["def"]]))      # the prose announces the default as well
            if rnd.random() < 0.3:
                # ... and a second phrase announces something else further on (whichever wins, it must win in every process)
                doc[-1]["says"] += ". Default: 7. With the legacy backend it defaults to 3"
    if kwargs == "doc":
        doc.append({"n": "kwargs", "typ": "absent"})
    kind = variant["kind"]
    attrs = []
    init_doc = True
    if kind == "class":
        for an in ("width", "depth")[: rnd.choice([0, 1, 2])]:
            attrs.append({"n": an, "ann": rnd.choice(["int", "str"]), "documented": rnd.random() < 0.6})
        if rnd.random() < 0.3:
            # an __init__ without a docstring of its own (nothing documents its parameters); half of them keyword-only throughout
            init_doc, doc = False, []
            if kwargs == "doc":
                kwargs = "undoc"
            if rnd.random() < 0.5:
                for p in params:
                    p["pk"] = "kwonly"
    return {"params": params, "kwargs": kwargs, "doc": doc, "style": variant["style"], "kind": kind, "attrs": attrs, "init_doc": init_doc}


def render_doc(sc, entries, summary="Do the thing.", indent="    ", key="param"):
    style = sc["style"]
    lines = [summary, ""]
    if not entries:
        return ("\n" + indent).join(lines).rstrip()
    if style == "rest":
        for e in entries:
            lines.append(":%s %s: %s" % (key, e["n"], PROSE[e["n"]] + ((" Defaults to " + e["says"]) if e.get("says") else "")))
            if e.get("typ", "absent") != "absent":
                lines.append(":type %s: ```%s```" % (e["n"], TYP[e["typ"]]))
            lines.append("")
    elif style == "numpydoc":
        lines += ["Parameters", "----------"]
        for e in entries:
            lines.append("%s : %s" % (e["n"], TYP[e["typ"]]) if e.get("typ", "absent") != "absent" else "%s :" % e["n"])
            lines.append("    " + PROSE[e["n"]] + ((" Defaults to " + e["says"]) if e.get("says") else ""))
        lines.append("")
    else:
        lines.append("Args:")
        for e in entries:
            pr = PROSE[e["n"]] + ((" Defaults to " + e["says"]) if e.get("says") else "")
            lines.append(("  %s (%s): %s" % (e["n"], TYP[e["typ"]], pr)) if e.get("typ", "absent") != "absent" else "  %s: %s" % (e["n"], pr))
        lines.append("")
    if sc.get("tail"):
        # a section after the parameters (C12: whatever the parser does with it, it must do the same every time)
        if style == "numpydoc":
            lines += ["References", "----------", "- https://example.org/paper", ""]
        elif style == "google":
            lines += ["Reference:", "  - https://example.org/paper", ""]
        else:
            lines += [".. note:: see https://example.org/paper", ""]
    return ("\n" + indent).join(lines).rstrip()


def render(sc):
    def sig_text(first=None):
        parts = [first] if first else []
        star = False
        for p in sc["params"]:
            if p["pk"] == "kwonly" and not star:
                parts.append("*")
                star = True
            s = p["n"]
            if p["ann"] != "absent":
                s += ": " + TYP[p["ann"]]
            if p["def"] is not None:
                s += (" = " if p["ann"] != "absent" else "=") + repr(p.get("val", DEFVAL[p["def"]]))
            parts.append(s)
        if sc["kwargs"]:
            parts.append("**kwargs")
        return ", ".join(parts)

    if sc["kind"] == "function":
        return "from typing import Optional\n\n\ndef f(%s):\n    \"\"\"\n    %s\n    \"\"\"\n    return None\n" % (sig_text(), render_doc(sc, sc["doc"]))
    if sc["kind"] == "method":
        return ("from typing import Optional\n\n\nclass C(object):\n    def f(%s):\n        \"\"\"\n        %s\n        \"\"\"\n        return None\n"
                % (sig_text("self"), render_doc(sc, sc["doc"], indent="        ")))
    cdoc = render_doc(sc, [{"n": a["n"], "typ": "absent"} for a in sc["attrs"] if a["documented"]], summary="A configurable thing.", key="cvar")
    body = "".join("    %s: %s = %r\n" % (a["n"], TYP[a["ann"]], DEFVAL[a["ann"]]) for a in sc["attrs"])
    if not sc.get("init_doc", True):
        return ("from typing import Optional\n\n\nclass C(object):\n    \"\"\"\n    %s\n    \"\"\"\n\n%s\n    def __init__(%s):\n        pass\n" % (cdoc, body, sig_text("self")))
    return ("from typing import Optional\n\n\nclass C(object):\n    \"\"\"\n    %s\n    \"\"\"\n\n%s\n    def __init__(%s):\n        \"\"\"\n        %s\n        \"\"\"\n        pass\n"
            % (cdoc, body, sig_text("self"), render_doc(sc, sc["doc"], summary="Build it.", indent="        ")))


def python_view(sc, src):
    """[[name, ann, def]] as Python sees the executed definition (class: attributes first, then __init__)."""
    ns = {}
    exec(compile(src, "<generated>", "exec"), ns)
    out = []
    if sc["kind"] == "class":
        cls = ns["C"]
        for n, ann in cls.__annotations__.items():
            out.append([n, typ_token(getattr(ann, "__name__", ann) if not str(ann).startswith("typing") else str(ann).replace("typing.", "")), def_token(getattr(cls, n)), "attr"])
        fn = cls.__init__
    elif sc["kind"] == "method":
        fn = ns["C"].f
    else:
        fn = ns["f"]
    for p in inspect.signature(fn).parameters.values():
        if p.name in ("self", "cls"):
            continue
        ann = p.annotation
        if ann is inspect.Parameter.empty:
            a = "absent"
        else:
            a = typ_token(ann.__name__ if isinstance(ann, type) else str(ann).replace("typing.", ""))
        if p.kind == inspect.Parameter.VAR_KEYWORD:
            out.append([p.name, "absent", "absent", "param"])
        else:
            out.append([p.name, a, def_token(p.default, p.default is not inspect.Parameter.empty), "param"])
    return out


def observe_ir(sc, ir):
    res = []
    sig_ann = {p["n"]: p["ann"] for p in sc["params"]}
    for a in sc["attrs"]:
        sig_ann[a["n"]] = a["ann"]
    doc_typ = {d["n"]: d["typ"] for d in sc["doc"]}
    for name, p in ir["params"].items():
        t = p.get("typ")
        tok = typ_token(t)
        if tok != "absent" and sig_ann.get(name, "absent") == "absent" and doc_typ.get(name, "absent") == "absent":
            tok = "fill" if tok in ("int", "str", "float", "OptDict") or name.endswith("kwargs") else tok
        d = def_token(p.get("default"), "default" in p)
        doc = " ".join(str(p.get("doc") or "").split())
        owner = "none"
        for n, pr in PROSE.items():
            if pr in doc:
                owner = n if owner == "none" else "several"
        if doc and owner == "none":
            owner = "other"
        res.append([name, tok, d, owner])
    return res


# ------------------------------------------------------------------------------------------------ worker (one per hash seed)

def worker_main(inp, outp):
    from .common import import_doctrans

    import_doctrans()
    from doctrans import parse

    with open(inp) as f:
        job = json.load(f)
    out, log = {}, []
    order = job["order"]
    seq = 0
    for rnd_ in range(job.get("rounds", 1)):
        for idx in order:
            sc = job["scenarios"][idx]
            src = sc["src"]
            try:
                tree = ast.parse(src)
                if sc["kind"] == "function":
                    ir = parse.function(next(n for n in tree.body if isinstance(n, ast.FunctionDef)))
                elif sc["kind"] == "method":
                    ir = parse.function(next(n for n in tree.body if isinstance(n, ast.ClassDef)).body[0])
                else:
                    ir = parse.class_(next(n for n in tree.body if isinstance(n, ast.ClassDef)), merge_inner_function="__init__")
                res = observe_ir(sc, ir)
                ser = json.dumps([[k, {kk: (ast.dump(vv) if isinstance(vv, ast.AST) else repr(vv)) for kk, vv in v.items()}] for k, v in ir["params"].items()])
                rec = {"exc": "none", "res": res, "digest": hashlib.sha256(ser.encode()).hexdigest()[:16]}
            except Exception as e:
                rec = {"exc": type(e).__name__, "res": [], "digest": "exc:" + type(e).__name__, "trace": traceback.format_exc(limit=5)}
            out[sc["id"]] = rec
            seq += 1
            log.append({"seq": seq, "op": "parse_" + sc["kind"], "input": hashlib.sha256(src.encode()).hexdigest()[:16], "output": rec["digest"]})
            if job.get("emit") and rec["exc"] == "none":
                # C12: emitting from the parsed description must be deterministic as well (one shared `ir`, copied per call)
                from copy import deepcopy

                from doctrans import emit
                from doctrans.source_transformer import to_code

                for op, fn in (("emit_class", lambda i: to_code(emit.class_(i))), ("emit_function", lambda i: to_code(emit.function(i, "f", "static"))),
                               ("emit_argparse", lambda i: to_code(emit.argparse_function(i))),
                               ("emit_rest", lambda i: emit.docstring(i, docstring_format="rest")),
                               ("emit_numpydoc", lambda i: emit.docstring(i, docstring_format="numpydoc")),
                               ("emit_google", lambda i: emit.docstring(i, docstring_format="google"))):
                    try:
                        o = hashlib.sha256(fn(deepcopy(ir)).encode()).hexdigest()[:16]
                    except Exception as e:
                        o = "exc:" + type(e).__name__
                    seq += 1
                    log.append({"seq": seq, "op": op, "input": hashlib.sha256(src.encode()).hexdigest()[:16], "output": o})
    with open(outp, "w") as f:
        json.dump({"results": out, "log": log}, f)


# ------------------------------------------------------------------------------------------------ check

def build(thorough, rnd, extras=False):
    d = scratch("mg-")
    tlc.export("MergeExport.tla", "MergeExport_extras.cfg" if extras else "MergeExport.cfg", d)
    cores = tlc.read_ndjson(os.path.join(d, "merge.ndjson"))
    if extras:
        # C12: every input without documented non-parameters, and a sample of those with one or two of them
        plain = [c for c in cores if not any(x in ("yy", "zz") for x in c["doc"])]
        ext = [c for c in cores if any(x in ("yy", "zz") for x in c["doc"])]
        two = [c for c in ext if "yy" in c["doc"] and "zz" in c["doc"]]
        one = [c for c in ext if not ("yy" in c["doc"] and "zz" in c["doc"])]
        cores = plain + rnd.sample(two, min(len(two), 1500 if thorough else 300)) + rnd.sample(one, min(len(one), 500 if thorough else 100))
    variants = [{"kind": k, "style": s} for k in ("function", "method", "class") for s in ("rest", "numpydoc", "google")]
    scs = []
    reps = 4 if (thorough and not extras) else 1
    for core in cores:
        is_ext = any(x in ("yy", "zz") for x in core["doc"])
        for v in (variants if (thorough and not is_ext) else rnd.sample(variants, 3)):
            for _ in range(reps):
                sc = decorate(core, rnd, v, variety=extras)
                sc["tail"] = bool(extras and rnd.random() < 0.3)
                sc["src"] = render(sc)
                sc["id"] = "m%d" % len(scs)
                scs.append(sc)
    return scs


def run_seeds(scs, seeds, rnd, orders=1, rounds=1, emit=False):
    d = scratch("mgw-")
    procs = []
    for si, s in enumerate(seeds):
        for oi in range(orders):
            order = list(range(len(scs)))
            if oi:
                rnd.shuffle(order)
            inp, outp = os.path.join(d, "in_%d_%d.json" % (si, oi)), os.path.join(d, "out_%d_%d.json" % (si, oi))
            with open(inp, "w") as f:
                json.dump({"scenarios": scs, "order": order, "rounds": rounds, "emit": emit}, f)
            env = child_env(PYTHONHASHSEED=s)
            procs.append((s, oi, outp, subprocess.Popen([PY, "-c", "import sys; from vf.merge_check import worker_main; worker_main(sys.argv[1], sys.argv[2])", inp, outp],
                                                        cwd=VERIF, env=env, stdout=subprocess.PIPE, stderr=subprocess.STDOUT, text=True)))
    outs = []
    for s, oi, outp, p in procs:
        so, _ = p.communicate()
        if p.returncode != 0 or not os.path.exists(outp):
            raise RuntimeError("merge worker failed (seed %s):\n%s" % (s, so[-2000:]))
        with open(outp) as f:
            outs.append((s, oi, json.load(f)))
    return outs


def feat_c07(sc, clause, name, rec):
    p = next((x for x in sc["params"] if x["n"] == name), None)
    d = next((x for x in sc["doc"] if x["n"] == name), None)
    r = next((x for x in rec["res"] if x[0] == name), None)
    return {"k": "merge", "cl": clause, "kind": sc["kind"], "style": sc["style"], "name": "kwargs" if name == "kwargs" else ("attr" if name in ("width", "depth") else ("param" if p else name)),
            "pk": p["pk"] if p else "none", "ann": p["ann"] if p else "none", "hasdef": bool(p and p["def"] is not None),
            "documented": d is not None, "doctyp": (d["typ"] if d else "none"), "doctyp_rel": ("none" if not d else ("absent" if d["typ"] == "absent" else ("same" if p and d["typ"] == p["ann"] else "other"))),
            "ndoc": len(sc["doc"]), "doc_in_order": [x["n"] for x in sc["doc"] if x["n"] != "kwargs"] == [x["n"] for x in sc["params"] if any(y["n"] == x["n"] for y in sc["doc"])],
            "kwargs": sc["kwargs"] or "none", "obs": r[1:] if r else "missing", "exc": rec["exc"], "any_untyped_doc": any(x["typ"] == "absent" for x in sc["doc"]),
            "nattrs": len(sc["attrs"]), "init_doc": sc.get("init_doc", True), "comps": []}


def run(prop, propose=False, replay=None):
    timer = Timer()
    thorough = tier() == "thorough"
    rnd = random.Random(seed() * 101 + 7)
    mcs = []
    if not replay:
        if prop == "C07":
            mcs.append(tlc.model_check("Merge.tla", "Merge_intended.cfg", workers=4))
        else:
            mcs.append(tlc.model_check("Process.tla", "Process.cfg", workers=4))
            mcs.append(tlc.model_check("Merge.tla", "Merge_extras.cfg", workers=4))
    if replay:
        with open(replay) as f:
            scs = [json.load(f)["scenario"]]
    else:
        scs = build(thorough, rnd, extras=(prop == "C12"))
        if prop == "C12":
            scs = scs[:: (2 if thorough else 3)]
    seeds = (list(range(16)) + ["random", "random"]) if thorough else ([0, 1, 2, 3] + (["random", 5, 6, 7] if prop == "C12" else []))
    outs = run_seeds(scs, seeds, rnd, orders=(3 if prop == "C12" else 1), rounds=(2 if prop == "C12" else 1), emit=(prop == "C12"))
    base = outs[0][2]["results"]
    matcher = F.Matcher(prop)
    violations, unmatched = [], []
    by = {s["id"]: s for s in scs}
    if prop == "C07":
        traces = []
        for sc in scs:
            rec = base[sc["id"]]
            stable = all(o[2]["results"][sc["id"]]["digest"] == rec["digest"] for o in outs)
            try:
                sig = python_view(sc, sc["src"])
            except Exception:
                raise RuntimeError("generated definition does not execute:\n" + sc["src"] + traceback.format_exc())
            doc = [[d["n"], d["typ"], "absent"] for d in sc["doc"]] + [[a["n"], "absent", "absent"] for a in sc["attrs"] if a["documented"]]
            traces.append({"id": sc["id"], "exc": rec["exc"], "sig": sig, "doc": doc, "res": rec["res"], "stable": stable})
        fails, stats = tlc.validate_traces("MergeTrace.tla", "MergeTrace.cfg", traces, shards=8)
        for tid, fs in fails.items():
            for (_, cl, name) in fs:
                feat = feat_c07(by[tid], cl, name, base[tid])
                if matcher.match(feat) is None:
                    if propose:
                        unmatched.append(feat)
                        continue
                    path = R.write_replay(prop, "%s-%s-%s" % (tid, cl, name), {"property": prop, "clause": cl, "name": name, "features": feat,
                                          "scenario": by[tid], "result": base[tid], "trace": next(t for t in traces if t["id"] == tid)})
                    violations.append((path, "%s %s: %s" % (cl, name, json.dumps({k: v for k, v in feat.items() if k != "comps"}))))
        ntr = len(traces)
        samples = [traces[0], traces[len(traces) // 2]]
    else:
        evs = []
        for pi, (s, oi, o) in enumerate(outs):
            for e in o["log"]:
                evs.append({"proc": pi, "seq": e["seq"], "seed": str(s), "op": e["op"], "input": e["input"], "output": e["output"]})
        chunks = {}
        nchunks = 64 if thorough else 8      # the memo of one history stays small: TLC rebuilds it at every new key
        for e in evs:
            chunks.setdefault(int(e["input"], 16) % nchunks, []).append(e)
        traces = [{"id": "hist%d" % k, "ev": sorted(v, key=lambda e: (e["proc"], e["seq"]))} for k, v in sorted(chunks.items())]
        fails, stats = tlc.validate_traces("ProcessTrace.tla", "ProcessTrace.cfg", traces, shards=(16 if thorough else 8))
        src_by = {hashlib.sha256(s["src"].encode()).hexdigest()[:16]: s for s in scs}
        seen = set()
        for tid, fs in fails.items():
            tr = next(t for t in traces if t["id"] == tid)
            for (step, cl, op) in fs:
                e = tr["ev"][step - 1]
                if e["input"] in seen:
                    continue
                seen.add(e["input"])
                sc = src_by[e["input"]]
                feat = {"k": "process", "cl": cl, "op": op, "kind": sc["kind"], "style": sc["style"], "ndoc": len(sc["doc"]), "kwargs": sc["kwargs"] or "none",
                        "nextras": sum(1 for x in sc["doc"] if x["n"].startswith("stale_")), "tail": bool(sc.get("tail")), "comps": []}
                if matcher.match(feat) is None:
                    if propose:
                        unmatched.append(feat)
                        continue
                    path = R.write_replay(prop, "%s-%s" % (tid, e["input"]), {"property": prop, "clause": cl, "features": feat, "scenario": sc, "event": e})
                    violations.append((path, "same input, different output across processes/orders: %s seed=%s" % (op, e["seed"])))
        ntr = len(evs)
        samples = [{"id": t["id"], "ev": t["ev"][:4]} for t in traces[:2]]
    for r in mcs:
        if not r["ok"]:
            violations.append((R.write_replay(prop, "mc-" + r["cfg"], r), "TLC: %s violated in %s" % (r["violated"], r["cfg"])))
    if propose:
        from collections import Counter

        c = Counter(json.dumps({k: v for k, v in f.items() if k not in ("comps",)}, sort_keys=True) for f in unmatched)
        for k, n in c.most_common(2000):
            print(n, k)
        print("unmatched", len(unmatched), "failing traces", len(fails), "of", len(traces))
        return 0
    if replay:
        print(json.dumps({"fails": fails, "traces": traces[:1]}, default=str)[:4000])
        return 1 if violations else 0
    cov = R.mc_summary(mcs)
    cov["states"] += stats["distinct"]
    cov["transitions"] += stats["states"]
    cov.update({"traces_validated_against_impl": ntr, "definitions": len(scs), "processes": len(outs), "hash_seeds": [str(s) for s in seeds],
                "failing_traces": len(fails), "known_findings_matched": len(matcher.hits), "stale_findings": matcher.stale(), "exhaustive": False,
                "rule": "definitions generated from every (signature, docstring subset/order) input of Merge.tla, decorated with kinds, annotations, "
                        "documented types, 3 styles, function/method/class+__init__ (C12: also with one or two documented names that are not parameters); "
                        "one interpreter per PYTHONHASHSEED (and per call order for C12)",
                "samples": samples})
    return R.finish(prop, "model_checking", cov, timer, violations[:200], matcher.report_lines(),
                    ["Python's view = inspect.signature / __annotations__ of the executed definition",
                     "positional-only parameters and *args are outside C07's stated subset"])
