"""Known findings: hand-written patterns in spec vocabulary, and matching of TLC-reported clause failures.

known_findings.json (hand-maintained, never written at check time):
  {"findings": [ PATTERN, ... ], "fixed": [ "fixed: property=<id> <commit> <what failed>", ... ]}

PATTERN = {
  "id": str, "properties": ["C01", ...], "what": str  (the defect, in words),
  "clauses": [clause names]            the named clauses of the TLA+ spec this defect makes fail
  "obs":     [values]                  optional: the observed (wrong) outcomes; anything else is a new violation
  "when":    {feature: value | [alternatives]}     k (kind), dd, step, hop, wrap, inl, kwo, ft, ...
  "slot":    [typ, dbase, dstop, dann, def]        matched against the slot the clause is about
  "any_slot": [...], "any_slot2": [...]            some (other) slot of the description matches
  "init_slot": [...], "init_ret": [...]            some slot / the return entry of the scenario's *initial* description matches
                                                   (for later passes whose cause has already been destroyed by an earlier one)
  "corrupt_before": true               the description the step starts from is already outside the vocabulary
  "after_earlier_failure": true        an earlier step of the same scenario already failed a clause (reported there)
  "ret":     [present, typ, dbase, dstop, dann, def]   the return entry of the description matches
  "no_params": true                    the description has no parameters
  "replay":  {...}                     one concrete failing scenario
}
Every field of a micro-signature is a value, a list of alternatives, or "*".  A failure is *known* iff some
pattern listing its property matches it.  A pattern fixes what the defect depends on and wildcards the rest, so a
different violation of the same property (other clause, other outcome, other region) is still reported.
"""
import json
import os

from .common import VERIF

KF_PATH = os.path.join(VERIF, "known_findings.json")


def load(path=KF_PATH):
    if not os.path.exists(path):
        return {"findings": [], "fixed": []}
    with open(path) as f:
        return json.load(f)


def _m(pat, val):
    if pat == "*":
        return True
    if isinstance(pat, list) and not isinstance(val, list):
        return val in pat
    if isinstance(pat, list) and isinstance(val, list):
        # list of alternatives (each itself a list) or a literal list value
        if pat and all(isinstance(x, list) for x in pat):
            return val in pat
        return pat == val
    return pat == val


def micro_match(pat, mic):
    if len(pat) != len(mic):
        return False
    return all(_m(p, v) for p, v in zip(pat, mic))


def _slots(feat):
    return [c["s"] for c in feat.get("comps", []) if "s" in c]


CHAIN_ALIAS = {
    "Chain.Def": ("DefaultKept", "DefaultFill"), "Chain.Typ": ("TypKept",), "Chain.Prose": ("ProseKept.base", "ProseKept.ann"),
    "Chain.NamePresent": ("NamePresent",), "Chain.Summary": ("SummaryKept",), "Chain.NamesOrder": ("NamesOrder",),
    "Chain.NoExtraNames": ("NoExtraNames",),
    "Chain.Ret": ("RetKept.present", "RetKept.typ", "RetKept.def", "RetKept.base", "RetKept.ann"),
}


def chain_subclauses(feat):
    """The hop-level clauses a chain failure corresponds to, as narrowly as the observation allows: a return entry that
    appeared or disappeared is RetKept.present only; otherwise the components of the return entry that differ from the
    original; a default is DefaultFill iff the original had none."""
    cl = feat["cl"]
    if cl == "Chain.Ret":
        r, o = feat.get("ret"), feat.get("obs")
        if r and isinstance(o, list) and len(o) == 4:
            if bool(o[0]) != bool(r[1]):
                return ("RetKept.present",)
            subs = []
            if o[1] != r[2]:
                subs.append("RetKept.typ")
            if o[2] != r[3]:
                subs += ["RetKept.base", "RetKept.ann"]
            if o[3] != r[6]:
                subs.append("RetKept.def")
            return tuple(subs) or CHAIN_ALIAS[cl]
    if cl == "Chain.Def" and feat.get("s"):
        return ("DefaultFill",) if feat["s"][4] == "absent" else ("DefaultKept",)
    return CHAIN_ALIAS.get(cl, ())


def chain_matches(p, feat):
    """C05 chain clauses compare with the *original* description: a hop-level finding explains a chain failure when one of
    the kinds on the path is a kind the finding is about, the clause is the chain counterpart of one of its clauses, and its
    slot / return conditions hold for the original description.  Outcome, step and context conditions do not transfer."""
    if p.get("after_earlier_failure"):
        return bool(feat.get("prior_fail"))
    if p.get("corrupt_before"):
        return False
    if feat["cl"] not in p["clauses"] and not any(c in p["clauses"] for c in chain_subclauses(feat)):
        return False
    if "obs" in p and feat["cl"] not in p["clauses"]:
        # the outcome transfers too: the first hop that deviates from the original shows the defect's own outcome (later hops
        # of the same chain are follow-ups of that failure)
        subs = [c for c in chain_subclauses(feat) if c in p["clauses"]]
        o = feat.get("obs")
        if feat["cl"] == "Chain.Ret" and isinstance(o, list) and len(o) == 4:
            comp = {"RetKept.present": o[0], "RetKept.typ": o[1], "RetKept.base": o[2], "RetKept.def": o[3]}
            seen = [comp[c] for c in subs if c in comp]
        elif feat["cl"] == "Chain.Prose" and isinstance(o, list) and len(o) == 2:
            seen = [o[0] if c == "ProseKept.base" else o[1] for c in subs]
        else:
            seen = [o]
        if seen and not any(_m(p["obs"], x) if not isinstance(x, list) else (x in p["obs"]) for x in seen):
            return False
    k = p.get("when", {}).get("k")
    if k is not None:
        ks = k if isinstance(k, list) else [k]
        if not any(x in ks for x in feat.get("path", [])):
            return False
    if "slot" in p:
        if "s" in feat:
            if not micro_match(p["slot"], feat["s"]):
                return False
        elif not any(micro_match(p["slot"], s) for s in _slots(feat)):
            return False
    for key in ("any_slot", "any_slot2", "init_slot"):
        if key in p and not any(micro_match(p[key], s) for s in _slots(feat)):
            return False
    for key in ("ret", "init_ret"):
        if key in p:
            r = next((c["r"] for c in feat.get("comps", []) if "r" in c), None)
            cur = feat.get("ret")
            if not ((r is not None and micro_match(p[key], r[1:])) or (cur is not None and micro_match(p[key], cur[1:]))):
                return False
    if p.get("no_params") and feat.get("n", 1) != 0:
        return False
    return True


def pattern_matches(p, feat):
    if str(feat.get("cl", "")).startswith("Chain."):
        return chain_matches(p, feat)
    if feat.get("cl") not in p["clauses"]:
        return False
    if "obs" in p and not any(json.dumps(o, sort_keys=True) == json.dumps(feat.get("obs"), sort_keys=True) for o in p["obs"]):
        return False
    for k, v in p.get("when", {}).items():
        if k not in feat:
            return False
        if isinstance(v, list):
            if feat[k] not in v:
                return False
        elif feat[k] != v:
            return False
    if "slot" in p:
        if "s" in feat:
            if not micro_match(p["slot"], feat["s"]):
                return False
        elif not any(micro_match(p["slot"], s) for s in _slots(feat)):
            return False
    for key in ("any_slot", "any_slot2"):
        if key in p and not any(micro_match(p[key], s) for s in _slots(feat)):
            return False
    if "init_slot" in p and not any(micro_match(p["init_slot"], c["s"]) for c in feat.get("icomps", []) if "s" in c):
        return False
    if "init_ret" in p and not any(micro_match(p["init_ret"], c["r"][1:]) for c in feat.get("icomps", []) if "r" in c):
        return False
    if "ret" in p:
        r = feat.get("ret")
        if r is None or not micro_match(p["ret"], r[1:]):
            return False
    if p.get("no_params") and feat.get("n", 1) != 0:
        return False
    if p.get("corrupt_before") and not _corrupt_before(feat):
        return False
    if p.get("after_earlier_failure") and not feat.get("prior_fail"):
        return False
    return True


def _corrupt_before(feat):
    """The description this step started from was already outside the vocabulary (an earlier, separately reported failure)."""
    for c in feat.get("comps", []):
        m = c.get("s")
        if m and (m[0] == "other" or m[1] == "other" or m[3] == "diff" or m[4] in ("other", "codeQ")):
            return True
        r = c.get("r")
        if r and r[1] and (r[2] == "other" or r[3] == "other" or r[5] == "diff" or r[6] in ("other", "codeQ")):
            return True
    return False


class Matcher:
    def __init__(self, prop, kf=None):
        kf = kf if kf is not None else load()
        self.prop = prop
        self.findings = [f for f in kf.get("findings", []) if prop in f.get("properties", [])]
        self.hits = {}
        self.collateral = {}

    def match(self, feat):
        for i, p in enumerate(self.findings):
            if pattern_matches(p, feat):
                self.hits[i] = self.hits.get(i, 0) + 1
                return p
        return None

    def note_pass(self, feat):
        """A *passing* instance that a pattern would also cover: measures how coarse the pattern is."""
        for i, p in enumerate(self.findings):
            if pattern_matches(p, feat):
                self.collateral[i] = self.collateral.get(i, 0) + 1
                return

    def report_lines(self):
        out = []
        for i, n in sorted(self.hits.items()):
            f = self.findings[i]
            out.append("KNOWN-FINDING: property=%s %s [%s; %d occurrence(s)]" % (self.prop, f["what"], f["id"], n))
        return out

    def stale(self):
        return [f["id"] for i, f in enumerate(self.findings) if i not in self.hits]

    def stats(self):
        return [{"id": f["id"], "failures_matched": self.hits.get(i, 0), "passing_instances_in_region": self.collateral.get(i, 0)}
                for i, f in enumerate(self.findings)]


def summarise(unmatched, limit=8):
    """Group unmatched failure feature dicts for triage: (k, dd, step, cl, obs) -> most frequent slot / shape."""
    from collections import Counter

    groups = {}
    for f in unmatched:
        key = json.dumps([f.get("k"), f.get("dd"), f.get("step"), f.get("cl"), f.get("obs")])
        groups.setdefault(key, []).append(f)
    lines = []
    for key, fs in sorted(groups.items(), key=lambda kv: -len(kv[1])):
        lines.append("%5d  %s" % (len(fs), key))
        if "s" in fs[0]:
            c = Counter(json.dumps(f["s"]) + " pd=%s" % f.get("pd") for f in fs)
            for k, n in c.most_common(limit):
                lines.append("         %5d s=%s" % (n, k))
        c = Counter()
        for f in fs:
            d = "P" + "".join(json.dumps(x["s"]) for x in f.get("comps", []) if "s" in x)
            r = f.get("ret")
            if r and r[1]:
                d += " R" + json.dumps(r[1:])
            c[d] += 1
        for k, n in c.most_common(limit if "s" not in fs[0] else 3):
            lines.append("         %5d %s" % (n, k))
        ctx = Counter(json.dumps({k: f[k] for k in ("hop", "prev", "wrap", "inl", "kwo", "ft", "ind") if k in f}, sort_keys=True) for f in fs)
        lines.append("               ctx: " + "; ".join("%s x%d" % kv for kv in ctx.most_common(3)))
    return "\n".join(lines)
