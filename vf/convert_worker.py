"""Subprocess worker: run scenarios under the environment of this interpreter (used for C18 / replays)."""
import json
import os
import sys

from . import convert_driver as CD
from . import domain as D


def main(inp, outp):
    with open(inp) as f:
        scs = json.load(f)
    tables = {}
    res = CD.run_all(scs, procs=int(os.environ.get("VERIF_WORKER_PROCS", CD.NCPU)))
    with open(outp, "w") as f:
        json.dump(res, f, default=str)


if __name__ == "__main__":
    main(sys.argv[1], sys.argv[2])
