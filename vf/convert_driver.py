"""Runs conversion scenarios on the real doctrans and records NDJSON traces for ConvertTrace.tla.

A scenario = (table id, abstract IR, actions).  Actions:
  ("emit", kind, opts)   opts: dd, wrap, ftype, inline, kwonly, indent, view (bool: observe Python's view, C06)
  ("parse",)
  ("reset",)
Each emit / parse works on a fresh deep copy of the current description (sharing is C13's business).
"""
import ast
import hashlib
import os
import tempfile
import traceback
from copy import deepcopy
from multiprocessing import Pool

from . import domain as D
from . import pyview
from .common import NCPU, import_doctrans

# xo: one further emitter option away from its default ("" = all defaults): septab (function: emit_separating_tab flipped),
#     call (class: emit_call), nobases / dictbase / deco (class: class_bases, decorator_list), wrapdesc (argparse: wrap_description)
DEFAULT_OPTS = {"dd": True, "wrap": True, "ftype": "static", "inline": True, "kwonly": False, "indent": 2, "view": False, "xo": ""}

_T = {}


def _tables(n_random, seed):
    key = (n_random, seed)
    if key not in _T:
        _T[key] = {t["id"]: t for t in D.tables(n_random, seed)}
    return _T[key]


def opts_of(**kw):
    o = dict(DEFAULT_OPTS)
    o.update(kw)
    return o


def digest(text):
    return hashlib.sha256(text.encode("utf8", "replace")).hexdigest()[:16]


def _exc_name(e):
    return type(e).__name__


def do_emit(kind, o, ir):
    """-> (text, node_or_None).  `text` is what a user would see (source text or docstring)."""
    from doctrans import emit
    from doctrans.source_transformer import to_code

    if kind in ("rest", "numpydoc", "google"):
        return emit.docstring(ir, docstring_format=kind, word_wrap=o["wrap"], emit_default_doc=o["dd"]), None
    xo = o.get("xo", "")
    if kind == "class":
        kw = {"call": {"emit_call": True}, "nobases": {"class_bases": tuple()}, "dictbase": {"class_bases": ("dict",)},
              "deco": {"decorator_list": ["identity_deco"]}}.get(xo, {})
        node = emit.class_(ir, class_name="ConfigClass", word_wrap=o["wrap"], emit_default_doc=o["dd"], **kw)
        return to_code(node), node
    if kind in ("function", "method"):
        kw = {}
        if xo == "septab":
            from doctrans.pure_utils import PY3_8
            kw["emit_separating_tab"] = not PY3_8
        node = emit.function(ir, function_name="f", function_type=o["ftype"], word_wrap=o["wrap"],
                             emit_default_doc=o["dd"], indent_level=o["indent"], inline_types=o["inline"],
                             emit_as_kwonlyargs=o["kwonly"], **kw)
        return to_code(node), node
    if kind == "argparse":
        node = emit.argparse_function(ir, emit_default_doc=o["dd"], word_wrap=o["wrap"], **({"wrap_description": True} if xo == "wrapdesc" else {}))
        return to_code(node), node
    raise ValueError(kind)


def wrap_method(text):
    return "class C(object):\n" + "\n".join(("    " + line) if line.strip() else line for line in text.splitlines()) + "\n"


def do_parse(kind, text):
    from doctrans import parse

    if kind in ("rest", "numpydoc", "google"):
        return parse.docstring(text)
    if kind == "class":
        return parse.class_(ast.parse(text).body[0])
    if kind == "function":
        return parse.function(ast.parse(text).body[0])
    if kind == "method":
        return parse.function(ast.parse(wrap_method(text)).body[0].body[0])
    if kind == "argparse":
        return parse.argparse_ast(ast.parse(text).body[0])
    raise ValueError(kind)


def _dump(node):
    """Structural dump that ignores absent-vs-empty optional fields (type_params=[] / kind=None / type_comment=None):
    hand-built nodes omit them, parsed ones carry them."""
    if isinstance(node, ast.UnaryOp) and isinstance(node.op, ast.USub) and isinstance(node.operand, ast.Constant) \
            and isinstance(node.operand.value, (int, float)) and not isinstance(node.operand.value, bool):
        node = ast.Constant(value=-node.operand.value)     # `-5` parses as USub(5); a hand-built Constant(-5) is the same literal
    if isinstance(node, ast.AST):
        out = [type(node).__name__]
        for f in node._fields:
            v = getattr(node, f, None)
            if v is None or v == []:
                continue
            out.append((f, _dump(v)))
        return tuple(out)
    if isinstance(node, list):
        return tuple(_dump(x) for x in node)
    return (type(node).__name__, repr(node))


def _cleandoc(tree):
    """Formatting may re-indent docstrings: compare them modulo inspect.cleandoc (layout, not content)."""
    import inspect

    for n in ast.walk(tree):
        if isinstance(n, (ast.FunctionDef, ast.ClassDef, ast.Module)) and n.body and isinstance(n.body[0], ast.Expr) \
                and isinstance(n.body[0].value, ast.Constant) and isinstance(n.body[0].value.value, str):
            n.body[0].value.value = "\n".join(x.rstrip() for x in inspect.cleandoc(n.body[0].value.value).splitlines()).strip()
    return tree


def observe_code(table, kind, o, text, node, hint, files=True):
    """Python's view of an emitted class / function / argparse function."""
    from doctrans import emit

    py = {"compiles": False, "reparse": False, "file_black": True, "file_plain": True, "executes": False}
    src = wrap_method(text) if kind == "method" else text
    try:
        compile(src, "<emitted>", "exec")
        py["compiles"] = True
    except Exception as e:
        py["compile_exc"] = repr(e)
        return py
    parsed = ast.parse(text).body[0]
    try:
        py["reparse"] = _dump(parsed) == _dump(node) and _dump(ast.parse(ast.unparse(parsed)).body[0]) == _dump(parsed)
    except Exception as e:
        py["reparse_exc"] = repr(e)
    if files:
        for key, skip in (("file_black", False), ("file_plain", True)):
            fd, fn = tempfile.mkstemp(suffix=".py")
            os.close(fd)
            try:
                emit.file(deepcopy(node), fn, mode="wt", skip_black=skip)
                with open(fn) as f:
                    got = ast.parse(f.read()).body[0]
                py[key] = _dump(_cleandoc(got)) == _dump(_cleandoc(deepcopy(parsed)))
            except Exception as e:
                py[key] = False
                py[key + "_exc"] = repr(e)
            finally:
                os.unlink(fn)
    try:
        if kind == "class":
            py.update(pyview.view_class(table, src, hint))
        elif kind in ("function", "method"):
            py.update(pyview.view_function(table, src, hint, in_class=(kind == "method")))
        else:
            py.update(pyview.view_argparse(table, src, hint))
        py["executes"] = True
    except Exception as e:
        py["exec_exc"] = repr(e)
    return py


def style_flags(text):
    try:
        from doctrans.docstring_utils import TOKENS

        rest, google, numpy = TOKENS.rest, TOKENS.google, TOKENS.numpydoc
    except Exception:
        rest = (":param", ":cvar", ":ivar", ":var", ":type", ":return", ":rtype")
        google = ("Args:", "Kwargs:", "Raises:", "Returns:")
        numpy = ("Parameters\n----------", "Returns\n-------")
    return {"rest": any(t in text for t in rest), "google": any(t in text for t in google),
            "numpy": any(t in text for t in numpy)}


def run_scenario(sc):
    """sc: dict(id, table(dict), air, actions, files) -> (trace for TLC, replay record)."""
    import_doctrans()
    table = sc["table"]
    air = sc["air"]
    cur = D.realise(table, air)
    cur_abs = air
    events, concrete = [], []
    art = None   # (kind, opts, text)
    for act in sc["actions"]:
        if act[0] == "reset":
            events.append({"a": "reset"})
            concrete.append({"a": "reset"})
            cur, cur_abs, art = D.realise(table, air), air, None
            continue
        if act[0] == "emit":
            kind, o = act[1], opts_of(**act[2])
            ev = {"a": "emit", "kind": kind, "dd": o["dd"], "ftype": o["ftype"], "inline": o["inline"],
                  "kwonly": o["kwonly"], "view": bool(o["view"]) and kind not in ("rest", "numpydoc", "google"), "exc": "none", "digest": "", "flags": {"rest": False, "google": False, "numpy": False},
                  "py": {"skipped": True}}
            rec = {"a": "emit", "kind": kind, "opts": o, "ir_in": repr(cur)}
            try:
                text, node = do_emit(kind, o, deepcopy(cur))
                ev["digest"] = digest(text)
                rec["text"] = text
                if node is None:
                    ev["flags"] = style_flags(text)
                elif o["view"]:
                    ev["py"] = observe_code(table, kind, o, text, node, cur_abs, files=sc.get("files", True))
                    rec["py"] = ev["py"]
                else:
                    ev["py"] = {"skipped": True}
                art = (kind, o, text)
            except Exception as e:
                ev["exc"] = _exc_name(e)
                rec["exc"] = traceback.format_exc(limit=6)
                art = None
            events.append(ev)
            concrete.append(rec)
            if art is None:
                break
            continue
        if act[0] == "parse":
            if art is None:
                break
            kind, o, text = art
            ev = {"a": "parse", "exc": "none", "ftype": "static", "ir": cur_abs}
            rec = {"a": "parse", "kind": kind}
            try:
                got = do_parse(kind, text)
                ev["ftype"] = str(got.get("type"))
                a = D.abstract_ir(table, got, hint=cur_abs)
                ev["ir"] = a
                rec["ir_out"] = repr({k: v for k, v in got.items() if k != "_internal"})
                cur, cur_abs = got, a
            except Exception as e:
                ev["exc"] = _exc_name(e)
                rec["exc"] = traceback.format_exc(limit=6)
            events.append(ev)
            concrete.append(rec)
            art = None
            continue
        raise ValueError(act)
    trace = {"id": sc["id"], "mode": sc.get("mode", "hop"), "init": air, "ev": events}
    replay = {"id": sc["id"], "table": table["id"], "air": air, "actions": sc["actions"], "concrete": concrete}
    return trace, replay


def _worker(sc):
    try:
        return run_scenario(sc)
    except Exception:
        return {"id": sc["id"], "mode": sc.get("mode", "hop"), "init": sc["air"], "ev": [], "driver_exc": traceback.format_exc()}, None


def run_all(scenarios, procs=NCPU):
    """Run scenarios in a process pool (fork: doctrans imported once per worker)."""
    if procs <= 1 or len(scenarios) < 32:
        return [_worker(s) for s in scenarios]
    with Pool(procs) as pool:
        return pool.map(_worker, scenarios, chunksize=max(1, len(scenarios) // (procs * 8)))
