"""C20 (CLI half): every invocation shape of Cli.tla is run as a real `python -m doctrans ...` subprocess in a scratch
project; exit status, output class and a byte-level directory snapshot are validated by TLC (CliTrace.tla)."""
import hashlib
import os
import shutil
import subprocess
import tempfile
from concurrent.futures import ThreadPoolExecutor

from . import tlc
from .common import NCPU, PY, child_env, scratch

K = ("argparse", "class", "function")
FLAG = {"argparse": "--argparse-function", "class": "--class", "function": "--function"}
NAME = {"argparse": "set_cli_args", "class": "ConfigClass", "function": "f"}
TRUTH = {"argparse": "argparse_function", "class": "class", "function": "function"}

CLASS_SRC = '''class ConfigClass(object):
    """
    Train the model.

    :cvar dataset_name: name of dataset. Defaults to "mnist"
    :cvar epochs: number of epochs. Defaults to 5"""

    dataset_name: str = "mnist"
    epochs: int = 5
'''
FUNC_SRC = '''def f(dataset_name: str = "mnist", epochs: int = 5):
    """
    Train the model.

    :param dataset_name: name of dataset.

    :param epochs: number of epochs.
    """
'''
ARGPARSE_SRC = '''def set_cli_args(argument_parser):
    """
    Set CLI arguments

    :param argument_parser: argument parser
    :type argument_parser: ```ArgumentParser```

    :returns: argument_parser
    :rtype: ```ArgumentParser```
    """
    argument_parser.description = "Train the model."
    argument_parser.add_argument("--dataset_name", help="name of dataset.", required=True, default="mnist")
    argument_parser.add_argument("--epochs", type=int, help="number of epochs.", required=True, default=5)
    return argument_parser
'''
SRC = {"argparse": ARGPARSE_SRC, "class": CLASS_SRC, "function": FUNC_SRC}
PROP_IN = "class A(object):\n    x: int = 5\n\n\ndef g(y: str = 'a'):\n    pass\n"
PROP_OUT = "class B(object):\n    z: float = 1.0\n"
GEN_MOD = "class Foo(object):\n    \'\'\'\n    Foo it.\n    \'\'\'\n\n    def __init__(self, a: int = 5):\n        '''\n        :param a: the a\n        '''\n        self.a = a\n\n\nmapping = {'Foo': Foo}\n"


def snapshot(root):
    out = {}
    for dp, dn, fn in os.walk(root):
        dn[:] = [d for d in dn if d != "__pycache__"]
        for f in fn:
            p = os.path.join(dp, f)
            with open(p, "rb") as fh:
                out[os.path.relpath(p, root)] = hashlib.sha256(fh.read()).hexdigest()
    return out


def run_one(rec):
    inv = rec["inv"]
    root = tempfile.mkdtemp(prefix="cli-")
    try:
        argv = [inv["cmd"]]
        if inv["cmd"] == "sync":
            if inv["truth"] != "none":
                argv += ["--truth", TRUTH[inv["truth"]]]
            for k in K:
                st = inv["file"][k]
                if st != "none":
                    p = os.path.join(root, k + "_file.py")
                    if st == "existing":
                        with open(p, "w") as f:
                            f.write(SRC[k])
                    argv += [FLAG[k], p]
                if inv["name"][k]:
                    argv += [FLAG[k] + "-name", NAME[k]]
        elif inv["cmd"] == "sync_properties":
            for key, flag, src in (("input", "--input-filename", PROP_IN), ("output", "--output-filename", PROP_OUT)):
                st = inv[key]
                if st != "none":
                    p = os.path.join(root, key + ".py")
                    if st == "existing":
                        with open(p, "w") as f:
                            f.write(src)
                    argv += [flag, p]
            if inv["params"]:
                argv += ["--input-param", "A.x", "--output-param", "B.z"]
        else:
            with open(os.path.join(root, "gen_mod_x.py"), "w") as f:
                f.write(GEN_MOD)
            st = inv["output"]
            if st != "none":
                p = os.path.join(root, "out.py")
                if st == "existing":
                    with open(p, "w") as f:
                        f.write("KEEP = 1\n")
                # HOME is the project directory: `~/out.py` is the same file under another spelling
                argv += ["--output-filename", ("~/out.py" if inv.get("spelling") == "tilde" else p)]
            if inv["flags"]:
                argv += ["--name-tpl", "{name}Config", "--input-mapping", "gen_mod_x.mapping", "--type", "class"]
        before = snapshot(root)
        env = child_env()
        env["PYTHONPATH"] = root + os.pathsep + env["PYTHONPATH"]
        env["HOME"] = root
        p = subprocess.run([PY, "-m", "doctrans"] + argv, cwd=root, env=env, stdout=subprocess.PIPE, stderr=subprocess.PIPE, text=True, timeout=120)
        after = snapshot(root)
        err = p.stderr
        if p.returncode == 0 and "Traceback" not in err:
            out = "ok"
        elif p.returncode == 2 and "Traceback" not in err and ("usage:" in err or "error:" in err):
            out = "usage"
        elif p.returncode != 0 and ("File exists and this is a destructive operation" in err or "must be an existent file" in err or "Two or more of" in err):
            out = "refused"
        else:
            out = "internal"
        return {"id": rec["id"], "inv": inv, "out": out, "changed": before != after, "status": p.returncode,
                "argv": [a.replace(root, "<root>") for a in argv], "stderr": err[-600:]}
    finally:
        shutil.rmtree(root, ignore_errors=True)


def feat_of(rec, clause):
    inv = rec["inv"]
    f = {"k": "cli", "cl": clause, "cmd": inv["cmd"], "out": rec["out"], "status": rec["status"], "changed": rec["changed"], "comps": []}
    if inv["cmd"] == "sync":
        nfiles = sum(1 for k in K if inv["file"][k] != "none")
        f.update(truth_ok=(inv["truth"] != "none" and inv["file"].get(inv["truth"]) == "existing"), nfiles=nfiles,
                 names_match=all((inv["file"][k] != "none") == inv["name"][k] for k in K),
                 any_missing_target=any(inv["file"][k] == "missing" for k in K if k != inv["truth"]),
                 exc=(rec["stderr"].strip().splitlines()[-1].split(":")[0] if rec["out"] == "internal" and rec["stderr"].strip() else "none"))
    elif inv["cmd"] == "sync_properties":
        f.update(input=inv["input"], output=inv["output"], params=inv["params"])
    else:
        f.update(output=inv["output"], flags=inv["flags"], spelling=inv.get("spelling", "plain"),
                 exc=(rec["stderr"].strip().splitlines()[-1].split(":")[0] if rec["out"] == "internal" and rec["stderr"].strip() else "none"))
    return f


def run_matrix(thorough, rnd):
    d = scratch("cli-")
    tlc.export("CliExport.tla", "CliExport.cfg", d)
    invs = tlc.read_ndjson(os.path.join(d, "cli.ndjson"))
    if not thorough:
        sync = [i for i in invs if i["cmd"] == "sync"]
        rest = [i for i in invs if i["cmd"] != "sync"]
        invs = rest + rnd.sample(sync, 150)
    recs = [{"id": "c%d" % i, "inv": inv} for i, inv in enumerate(invs)]
    with ThreadPoolExecutor(max_workers=NCPU) as ex:
        res = list(ex.map(run_one, recs))
    mc = tlc.model_check("Cli.tla", "Cli.cfg", workers=4)
    traces = [{k: r[k] for k in ("id", "inv", "out", "changed", "status")} for r in res]
    fails, stats = tlc.validate_traces("CliTrace.tla", "CliTrace.cfg", traces, shards=4)
    by = {r["id"]: r for r in res}
    failures = []
    for tid, fs in fails.items():
        for (_, cl, _) in fs:
            failures.append((feat_of(by[tid], cl), by[tid]))
    return {"n": len(res), "failures": failures, "mc": mc, "stats": stats}
