"""Running TLC: exhaustive model checking, simulation, domain export and batch trace validation."""
import json
import os
import re
import subprocess
from concurrent.futures import ThreadPoolExecutor

from .common import NCPU, SPEC, scratch

JAR = "/opt/veriftools/tla/tla2tools.jar:/opt/veriftools/tla/CommunityModules-deps.jar"


class TLCError(RuntimeError):
    """Machinery failure (exit 2): TLC did not do what was asked."""


def _run(module, cfg, workers=NCPU, env=None, extra=(), timeout=3600, heap="8g", deque=False):
    meta = scratch("tlc-")
    cmd = ["java", "-XX:+UseParallelGC", "-Xmx" + heap]
    if deque:
        cmd.append("-Dtlc2.tool.queue.IStateQueue=StateDeque")
    cmd += ["-cp", JAR, "tlc2.TLC", "-workers", str(workers), "-metadir", meta, "-noGenerateSpecTE",
            "-config", os.path.join(SPEC, cfg)] + list(extra) + [os.path.join(SPEC, module)]
    e = dict(os.environ)
    e.update(env or {})
    p = subprocess.run(cmd, cwd=SPEC, env=e, stdout=subprocess.PIPE, stderr=subprocess.STDOUT, text=True, timeout=timeout)
    return p.returncode, p.stdout


_RE_STATES = re.compile(r"(\d[\d,]*) states generated, (\d[\d,]*) distinct states found")
_RE_DEPTH = re.compile(r"depth of the complete state graph search is (\d+)")


def _num(s):
    return int(s.replace(",", ""))


def model_check(module, cfg, workers=NCPU, env=None, timeout=3600, coverage=False):
    """Exhaustive check.  Returns dict(ok, states, distinct, depth, violated, out, coverage)."""
    extra = ["-coverage", "1"] if coverage else []
    rc, out = _run(module, cfg, workers=workers, env=env, extra=extra, timeout=timeout)
    res = {"ok": False, "states": 0, "distinct": 0, "depth": 0, "violated": None, "rc": rc, "cfg": cfg, "module": module}
    m = None
    for m in _RE_STATES.finditer(out):
        pass
    if m:
        res["states"], res["distinct"] = _num(m.group(1)), _num(m.group(2))
    m = _RE_DEPTH.search(out)
    if m:
        res["depth"] = int(m.group(1))
    v = re.search(r"Invariant (\w+) is violated|Action property (\w+) is violated|Temporal properties were violated", out)
    if v:
        res["violated"] = v.group(1) or v.group(2) or "temporal"
    if "Model checking completed. No error has been found." in out and rc == 0:
        res["ok"] = True
    elif not v:
        raise TLCError("TLC failed on %s/%s (rc=%s):\n%s" % (module, cfg, rc, out[-3000:]))
    if coverage:
        res["coverage"] = parse_coverage(out)
    res["out_tail"] = out[-1500:]
    return res


def parse_coverage(out):
    """Per-action counts from `-coverage 1` output: {action: [distinct, total]}."""
    cov = {}
    for m in re.finditer(r"<(\w+) line \d+, col \d+ to line \d+, col \d+ of module (\w+)>: (\d+):(\d+)", out):
        cov[m.group(1)] = [int(m.group(3)), int(m.group(4))]
    return cov


def export(module, cfg, outdir, extra_env=None):
    env = {"EXPORT_DIR": outdir}
    env.update(extra_env or {})
    rc, out = _run(module, cfg, workers=4, env=env, timeout=600)
    if rc != 0 or "No error has been found" not in out:
        raise TLCError("export failed %s/%s:\n%s" % (module, cfg, out[-3000:]))
    return out


def read_ndjson(path):
    with open(path) as f:
        return [json.loads(line) for line in f if line.strip()]


_RE_TUPLE = re.compile(r'^<<(.*)>>$')


def _parse_tuple(line):
    """Parse a one-line TLC tuple of strings and ints: <<"F", "id", 3, "Clause", "slot">>."""
    m = _RE_TUPLE.match(line.strip())
    if not m:
        return None
    try:
        return json.loads("[" + m.group(1) + "]")
    except ValueError:
        return None


def validate_traces(module, cfg, traces, shards=NCPU, env=None, timeout=3600):
    """Batch trace validation.

    `traces`: list of dicts with an "id".  Splits them over `shards` JVMs (each `-workers 1`), returns
    (failures, stats) where failures maps id -> list of (step, clause, slot) and stats has states/transitions.
    Totality: every id must be reported done exactly once, otherwise TLCError.
    """
    if not traces:
        return {}, {"states": 0, "distinct": 0, "jvms": 0}
    d = scratch("tr-")
    shards = max(1, min(shards, (len(traces) + 199) // 200))
    files = []
    for i in range(shards):
        part = traces[i::shards]
        fn = os.path.join(d, "t%d.ndjson" % i)
        with open(fn, "w") as f:
            for t in part:
                f.write(json.dumps(t, separators=(",", ":")) + "\n")
        files.append((fn, part))

    def one(arg):
        fn, part = arg
        e = {"TRACE_FILE": fn}
        e.update(env or {})
        rc, out = _run(module, cfg, workers=1, env=e, timeout=timeout, heap="3g")
        return rc, out, part

    fails, done = {}, {}
    states = distinct = 0
    with ThreadPoolExecutor(max_workers=shards) as ex:
        for rc, out, part in ex.map(one, files):
            if rc != 0 or "No error has been found" not in out:
                raise TLCError("trace validation failed (%s/%s, rc=%s):\n%s" % (module, cfg, rc, out[-4000:]))
            for line in out.splitlines():
                if not line.startswith("<<"):
                    continue
                tup = _parse_tuple(line)
                if not tup:
                    continue
                if tup[0] == "F":
                    fails.setdefault(tup[1], []).append(tuple(tup[2:]))
                elif tup[0] == "D":
                    done[tup[1]] = done.get(tup[1], 0) + 1
            m = None
            for m in _RE_STATES.finditer(out):
                pass
            if m:
                states += _num(m.group(1))
                distinct += _num(m.group(2))
            for t in part:
                if done.get(t["id"], 0) != 1:
                    raise TLCError("trace %s not consumed exactly once (%s)\n%s" % (t["id"], done.get(t["id"], 0), out[-2000:]))
    return fails, {"states": states, "distinct": distinct, "jvms": shards}
