"""C19: gen.  Gen.tla model-checked; every configuration exported by TLC (sampled in quick) is run as a real
`python -m doctrans gen ...` subprocess on a generated input module; the output module is observed with ast and validated
by TLC (GenTrace.tla)."""
import ast
import hashlib
import json
import os
import random
import shutil
import subprocess
import tempfile
from concurrent.futures import ThreadPoolExecutor

from . import findings as F
from . import runner as R
from . import tlc
from .common import NCPU, PY, Timer, child_env, scratch, seed, tier

ENTRY_SRC = {
    "Foo": '''class Foo(object):
    """
    Foo things.
    """

    def __init__(self, alpha: int = 5, beta: str = "x"):
        """
        Make a Foo

        :param alpha: the alpha
        :param beta: the beta
        """
        self.alpha = alpha
''',
    "Fob": '''class Fob(object):
    """
    Foo things.
    """

    def __init__(self, alpha: int = 7, beta: str = "y", kappa: float = 0.5):
        """
        Make a Foo

        :param alpha: the alpha
        :param beta: the beta
        """
        self.alpha = alpha
''',
    "Baz": '''class Baz(object):
    """
    Baz things.
    """

    def __init__(self, gamma=3, delta="d"):
        """
        Make a Baz

        :param gamma: the gamma
        :param delta: the delta
        """
        self.gamma = gamma
''',
    "bar": '''def bar(eps: float = 0.5, zeta: bool = True):
    """
    Bar it.

    :param eps: the eps
    :param zeta: the zeta
    """
    return eps
''',
    "qux": '''def qux(eta=1, theta="t"):
    """
    Qux it.

    :param eta: the eta
    :param theta: the theta
    """
    return eta
''',
}
PARAMS = {"Fob": ["alpha", "beta", "kappa"], "Foo": ["alpha", "beta"], "Baz": ["gamma", "delta"], "bar": ["eps", "zeta"], "qux": ["eta", "theta"]}
# the defaults each object's own signature gives (twins share docstrings, not these)
DEFAULTS = {"Foo": {"alpha": 5, "beta": "x"}, "Fob": {"alpha": 7, "beta": "y", "kappa": 0.5}, "Baz": {"gamma": 3, "delta": "d"},
            "bar": {"eps": 0.5, "zeta": True}, "qux": {"eta": 1, "theta": "t"}}
IMPORT_LINES = ["import os", "from collections import OrderedDict"]
PREPEND = "PREPENDED_MARK = 1\n"


def templated(tpl, n):
    return n + "Config" if tpl == "suffix" else "Cfg" + n


def key(c, n):
    """Gen.tla Key: the mapping key of entry n."""
    return "My" + n if c.get("alias") else n


def snapshot(root):
    out = {}
    for fn in os.listdir(root):
        p = os.path.join(root, fn)
        if os.path.isfile(p):
            with open(p, "rb") as f:
                out[fn] = hashlib.sha256(f.read()).hexdigest()
    return out


def run_one(rec):
    c = rec["cfg"]
    root = tempfile.mkdtemp(prefix="gen-")
    try:
        mod = "genin_%s" % rec["id"]
        src = "from collections import OrderedDict\n\n\n" + "\n\n".join(ENTRY_SRC[n] for n in c["mapping"]) + \
              "\n\nmapping = OrderedDict((%s))\n" % "".join("(%r, %s), " % (key(c, n), n) for n in c["mapping"])
        with open(os.path.join(root, mod + ".py"), "w") as f:
            f.write(src)
        imports_file = os.path.join(root, "imports_src.py")
        with open(imports_file, "w") as f:
            lines = IMPORT_LINES[: c["imports"]]
            if len(lines) == 2 and int(rec["id"][1:]) % 2:
                # the imports of the file need not form one block: another statement stands between them
                f.write(lines[0] + "\n__author__ = 'someone'\n" + lines[1] + "\nX = 1\n")
            else:
                f.write("\n".join(lines) + "\nX = 1\n")
        out = os.path.join(root, "out.py")
        if c["exists"]:
            with open(out, "w") as f:
                f.write("KEEP = 1\n")
        argv = ["gen", "--name-tpl", "{name}Config" if c["tpl"] == "suffix" else "Cfg{name}", "--input-mapping", mod + ".mapping", "--type", c["type"],
                "--output-filename", out]
        if c["prepend"]:
            argv += ["--prepend", PREPEND.replace("\n", "\\n")]
        if c["imports"]:
            argv += ["--imports-from-file", imports_file]
        env = child_env()
        env["PYTHONPATH"] = root + os.pathsep + env["PYTHONPATH"]

        def call():
            p = subprocess.run([PY, "-m", "doctrans"] + argv, cwd=root, env=env, stdout=subprocess.PIPE, stderr=subprocess.PIPE, text=True, timeout=180)
            if p.returncode == 0 and "Traceback" not in p.stderr:
                return "ok", p.stderr
            if "File exists and this is a destructive operation" in p.stderr or (p.returncode == 2 and "error:" in p.stderr):
                return "refused", p.stderr
            return "internal", p.stderr

        before = snapshot(root)
        status, err = call()
        after = snapshot(root)
        res = {"id": rec["id"], "cfg": c, "status": status, "parses": False, "items": [], "all": [], "all_dups": False, "iface_ok": False, "kind_ok": False,
               "second": "ok", "second_same": True, "first_same": before.get("out.py") == after.get("out.py") and set(before) == set(after), "stderr": err[-800:]}
        if status == "ok" and os.path.exists(out):
            with open(out) as f:
                text = f.read()
            res["text"] = text
            try:
                tree = ast.parse(text)
                res["parses"] = True
            except SyntaxError as e:
                res["syntax_error"] = str(e)
                tree = None
            if tree is not None:
                want = [templated(c["tpl"], key(c, n)) for n in c["mapping"]]
                items, iface_ok, kind_ok = [], True, True
                for st in tree.body:
                    if isinstance(st, (ast.Import, ast.ImportFrom)):
                        items.append("import")
                    elif isinstance(st, ast.Assign) and any(isinstance(t, ast.Name) and t.id == "PREPENDED_MARK" for t in st.targets):
                        items.append("prepend")
                    elif isinstance(st, ast.Assign) and any(isinstance(t, ast.Name) and t.id == "__all__" for t in st.targets):
                        items.append("all")
                        try:
                            res["all"] = list(ast.literal_eval(st.value))
                        except Exception:
                            res["all"] = ["<unevaluable>"]
                        res["all_dups"] = len(res["all"]) != len(set(res["all"]))
                    elif isinstance(st, (ast.ClassDef, ast.FunctionDef)):
                        items.append(st.name)
                        if st.name in want:
                            src_name = c["mapping"][want.index(st.name)]
                            names, vals = [], {}

                            def lit(node):
                                try:
                                    return ast.literal_eval(node)
                                except Exception:
                                    return "<unevaluable>"

                            if isinstance(st, ast.ClassDef):
                                for x in st.body:
                                    if isinstance(x, ast.AnnAssign) and isinstance(x.target, ast.Name):
                                        names.append(x.target.id)
                                        if x.value is not None:
                                            vals[x.target.id] = lit(x.value)
                                kind_ok = kind_ok and c["type"] == "class"
                            else:
                                if c["type"] == "argparse":
                                    for x in st.body:
                                        if isinstance(x, ast.Expr) and isinstance(x.value, ast.Call) and getattr(x.value.func, "attr", "") == "add_argument":
                                            n_ = ast.literal_eval(x.value.args[0])[2:]
                                            names.append(n_)
                                            for kw in x.value.keywords:
                                                if kw.arg == "default":
                                                    vals[n_] = lit(kw.value)
                                else:
                                    pos = [a for a in st.args.args if a.arg not in ("self", "cls")]
                                    names = [a.arg for a in pos + st.args.kwonlyargs]
                                    for a, d in zip(pos[len(pos) - len(st.args.defaults):], st.args.defaults):
                                        vals[a.arg] = lit(d)
                                    for a, d in zip(st.args.kwonlyargs, st.args.kw_defaults):
                                        if d is not None:
                                            vals[a.arg] = lit(d)
                                kind_ok = kind_ok and c["type"] in ("function", "argparse")
                            # the values must be the object's own (type-exact)
                            for n_, want_v in DEFAULTS[src_name].items():
                                if n_ in vals and (vals[n_] != want_v or type(vals[n_]) is not type(want_v)):
                                    iface_ok = False
                                    res.setdefault("iface_detail", []).append([st.name, n_, repr(vals[n_]), repr(want_v)])
                            if [n for n in names if n != "return_type"] != PARAMS[src_name]:
                                iface_ok = False
                                res.setdefault("iface_detail", []).append([st.name, names])
                    else:
                        items.append("other")
                res.update(items=items, iface_ok=iface_ok, kind_ok=kind_ok)
            b2 = snapshot(root)
            res["second"], _ = call()
            res["second_same"] = snapshot(root) == b2
        return res
    finally:
        shutil.rmtree(root, ignore_errors=True)


def run(prop="C19", propose=False, replay=None):
    timer = Timer()
    thorough = tier() == "thorough"
    rnd = random.Random(seed() + 19)
    mcs = [tlc.model_check("Gen.tla", "Gen.cfg", workers=4)]
    d = scratch("gen-")
    tlc.export("GenExport.tla", "GenExport.cfg", d)
    rows = tlc.read_ndjson(os.path.join(d, "gen.ndjson"))
    if not thorough:
        ex = [r for r in rows if r["cfg"]["exists"]]
        ne = [r for r in rows if not r["cfg"]["exists"]]
        twins = [r for r in ne if "Foo" in r["cfg"]["mapping"] and "Fob" in r["cfg"]["mapping"]]
        rows = rnd.sample(ex, 12) + rnd.sample(ne, 200) + rnd.sample(twins, 60)
    recs = [{"id": "g%d" % i, "cfg": r["cfg"]} for i, r in enumerate(rows)]
    if replay:
        with open(replay) as f:
            recs = [{"id": "g0", "cfg": json.load(f)["record"]["cfg"]}]
    with ThreadPoolExecutor(max_workers=NCPU) as ex_:
        res = list(ex_.map(run_one, recs))
    keys = ("id", "cfg", "status", "parses", "items", "all", "all_dups", "iface_ok", "kind_ok", "second", "second_same", "first_same")
    traces = [{k: r[k] for k in keys} for r in res]
    fails, stats = tlc.validate_traces("GenTrace.tla", "GenTrace.cfg", traces, shards=4)
    matcher = F.Matcher(prop)
    violations, unmatched = [], []
    by = {r["id"]: r for r in res}
    for tid, fs in fails.items():
        for (_, cl, _) in fs:
            r = by[tid]
            c = r["cfg"]
            feat = {"k": "gen", "cl": cl, "type": c["type"], "tpl": c["tpl"], "prepend": c["prepend"], "imports": c["imports"], "exists": c["exists"], "alias": c["alias"],
                    "n": len(c["mapping"]), "has_class": any(n in ("Foo", "Baz", "Fob") for n in c["mapping"]), "twins": ("Foo" in c["mapping"] and "Fob" in c["mapping"]), "has_function": any(n in ("bar", "qux") for n in c["mapping"]),
                    "has_unannotated": any(n in ("Baz", "qux") for n in c["mapping"]), "status": r["status"], "second": r["second"],
                    "exc": (r["stderr"].strip().splitlines()[-1].split(":")[0] if r["status"] == "internal" and r["stderr"].strip() else "none"), "comps": []}
            if matcher.match(feat) is None:
                if propose:
                    unmatched.append(feat)
                    continue
                path = R.write_replay(prop, "%s-%s" % (tid, cl), {"property": prop, "clause": cl, "features": feat, "record": r})
                violations.append((path, "%s cfg=%s status=%s items=%s all=%s" % (cl, json.dumps(c), r["status"], r["items"], r["all"])))
    for r in mcs:
        if not r["ok"]:
            violations.append((R.write_replay(prop, "mc-" + r["cfg"], r), "TLC: %s violated in %s" % (r["violated"], r["cfg"])))
    if propose:
        from collections import Counter

        c = Counter(json.dumps({k: f[k] for k in ("cl", "type", "prepend", "imports", "has_class", "has_function", "has_unannotated", "status", "exc", "second")}, sort_keys=True) for f in unmatched)
        for k, n in c.most_common(80):
            print(n, k)
        print("unmatched", len(unmatched), "failing traces", len(fails), "of", len(traces))
        return 0
    if replay:
        print(json.dumps({"fails": fails, "record": res[0]}, default=str)[:5000])
        return 1 if violations else 0
    cov = R.mc_summary(mcs)
    cov["states"] += stats["distinct"]
    cov["transitions"] += stats["states"]
    cov.update({"traces_validated_against_impl": len(traces), "configurations_enumerated_by_tlc": 2880, "failing_traces": len(fails),
                "known_findings_matched": len(matcher.hits), "stale_findings": matcher.stale(), "exhaustive": thorough,
                "rule": "configuration = (mapping of 1-3 distinct entries among 2 classes with __init__ and 2 functions, annotated or not; output type; name "
                        "template; prepend; 0-2 import lines; output exists; mapping keys equal to or different from the objects' own names); real CLI run + second invocation; output observed with ast",
                "samples": [{k: v for k, v in r.items() if k in ("cfg", "status", "items", "all", "second")} for r in res[:: max(1, len(res) // 3)][:3]]})
    return R.finish(prop, "model_checking", cov, timer, violations[:200], matcher.report_lines(),
                    ["entries are drawn from four fixed definitions (two classes with __init__, two functions; annotated and unannotated)",
                     "the interface of a generated definition is judged by parameter names and order against the source object"])
