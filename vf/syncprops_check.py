"""C14: sync_properties.  SyncProps.tla model-checked; real calls over a pair of generated modules with every addressable
location (module-level assignment, class attribute, function / method argument, positional and keyword-only), 1..3 pairs,
wrap on/off, eval on/off, plus unresolved addresses; observed with ast and validated by TLC (SyncPropsTrace.tla)."""
import ast
import hashlib
import itertools
import json
import os
import random
import shutil
import tempfile
import traceback
from multiprocessing import Pool

from . import findings as F
from . import runner as R
from . import tlc
from .common import NCPU, Timer, import_doctrans, seed, tier

INPUT = '''import os

a_const: int = 5
b_plain = "x"
choices = ("np", "tf")


def helper(same: bytes = b""):
    return same


class ABase(object):
    attr1: bytes = b"look-alike"

    def meth(self, marg: bytes = b""):
        return marg


def fin_all(fnodef: bytes, farg: bytes = b"", *, fkw: bytes = b""):
    return farg


class A(object):
    attr1: str = "s"

    def meth(self, marg: float = 1.5, *, mkw: bool = True):
        return marg


def fin(fnodef: bytes, farg: int = 3, *, fkw: list = None):
    return farg
'''
OUTPUT = '''import sys

x_const: float = 0.0


def helper(same: int = 1):
    return same


class BBase(object):
    battr: bytes = b"look-alike"
    same: bytes = b"look-alike"

    def bm(self, same: bytes = b"", other: bytes = b""):
        return same


def fout_all(same: bytes = b"", q: bytes = b""):
    return same


class B(object):
    battr: int = 1
    same: int = 2

    def bm(self, same: int = 7, other: str = "k", *, bkw: int = 0):
        return same

    def bn(self, lead, mid: int, tail: str = "t", *, kreq, kopt: int = 4):
        return lead


def fout(same: int = 9, q: str = "z"):
    return same


def fnd(p, q, r=3, s=4):
    return p
'''
IN_LOCS = {"a_const": "annassign", "b_plain": "assign", "A.attr1": "classattr", "A.meth.marg": "arg", "A.meth.mkw": "kwarg",
           "fin.fnodef": "arg", "fin.farg": "arg", "fin.fkw": "kwarg", "helper.same": "arg"}
OUT_LOCS = {"x_const": "annassign", "B.battr": "classattr", "B.same": "classattr", "B.bm.same": "arg", "B.bm.other": "arg", "B.bm.bkw": "kwarg",
            "fout.same": "arg", "fout.q": "arg", "helper.same": "arg",
            # arguments without a default, left of arguments that have one (defaults are right-aligned; kw_defaults hold None)
            "B.bn.lead": "arg", "B.bn.mid": "arg", "B.bn.kreq": "kwarg", "B.bn.kopt": "kwarg", "fnd.p": "arg", "fnd.q": "arg", "fnd.s": "arg"}
# the last four of each have an *empty* component (what `"$CLS.$ATTR"` gives when a variable is empty): not an address of anything
BOGUS_IN = ["nope", "A.nope", "fin.nope", "A.meth.zz.q", "A.", ".", "A..attr1", "fin.farg."]
BOGUS_OUT = ["nada", "B.nada", "fout.nada", "B.bm.same.x", "B.", ".", "B..battr", "fout.same."]
WRAP = "Optional[Union[{output_param}, str]]"


def nodes(tree):
    """location -> (address, node) by an independent walk over ast."""
    out = {}

    def walk(body, prefix, addr):
        for i, st in enumerate(body):
            a = addr + (i,)
            if isinstance(st, ast.AnnAssign) and isinstance(st.target, ast.Name):
                out[".".join(prefix + [st.target.id])] = (a, st)
            elif isinstance(st, ast.Assign):
                for t in st.targets:
                    if isinstance(t, ast.Name):
                        out[".".join(prefix + [t.id])] = (a, st)
            elif isinstance(st, ast.FunctionDef):
                for j, arg in enumerate(st.args.args):
                    out[".".join(prefix + [st.name, arg.arg])] = (a + ("a", j), arg)
                for j, arg in enumerate(st.args.kwonlyargs):
                    out[".".join(prefix + [st.name, arg.arg])] = (a + ("k", j), arg)
            elif isinstance(st, ast.ClassDef):
                walk(st.body, prefix + [st.name], a)

    walk(tree.body, [], ())
    return out


def snapshot(tree):
    """address -> (kind, name, annotation source, default/value source) for every property node; other statements by dump."""
    snap = {}

    def src(n):
        return None if n is None else ast.unparse(n)

    def walk(body, addr):
        for i, st in enumerate(body):
            a = addr + (i,)
            if isinstance(st, ast.AnnAssign) and isinstance(st.target, ast.Name):
                snap[a] = ("annassign", st.target.id, src(st.annotation), src(st.value))
            elif isinstance(st, ast.Assign):
                snap[a] = ("assign", src(st.targets[0]), None, src(st.value))
            elif isinstance(st, ast.FunctionDef):
                args = st.args
                dpos = [None] * (len(args.args) - len(args.defaults)) + list(args.defaults)
                for j, arg in enumerate(args.args):
                    snap[a + ("a", j)] = ("arg", arg.arg, src(arg.annotation), src(dpos[j]) if j < len(dpos) else "?")
                for j, arg in enumerate(args.kwonlyargs):
                    snap[a + ("k", j)] = ("kwarg", arg.arg, src(arg.annotation), src(args.kw_defaults[j]) if j < len(args.kw_defaults) else "?")
                snap[a] = ("func", st.name, len(args.args), len(args.kwonlyargs), ast.dump(ast.Module(body=st.body, type_ignores=[])), src(st.returns))
            elif isinstance(st, ast.ClassDef):
                snap[a] = ("class", st.name, len(st.body))
                walk(st.body, a)
            else:
                snap[a] = ("stmt", ast.dump(st))

    walk(tree.body, ())
    return snap


def run_one(sc):
    import_doctrans()
    from doctrans.sync_properties import sync_properties

    root = tempfile.mkdtemp(prefix="sp-")
    try:
        ifn, ofn = os.path.join(root, "input_mod.py"), os.path.join(root, "output_mod.py")
        with open(ifn, "w") as f:
            f.write(INPUT)
        with open(ofn, "w") as f:
            f.write(OUTPUT)
        in_nodes = nodes(ast.parse(INPUT))
        out_tree0 = ast.parse(OUTPUT)
        out_nodes0 = nodes(out_tree0)
        snap0 = snapshot(out_tree0)
        rec = {"id": sc["id"], "wrap": sc["wrap"], "eval": sc["eval"], "exc": "none", "pairs": [], "changed": [], "got": [], "want": [],
               "input_same": True, "parses": True, "out_same": True}
        for i, o in sc["pairs"]:
            rec["pairs"].append([i, o, i in in_nodes, o in out_nodes0])
        try:
            sync_properties(input_eval=sc["eval"], input_filename=ifn, input_params=[p[0] for p in sc["pairs"]], output_filename=ofn,
                            output_params=[p[1] for p in sc["pairs"]], output_param_wrap=(WRAP if sc["wrap"] else None))
        except BaseException as e:    # noqa: B902
            rec["exc"] = type(e).__name__
            rec["trace"] = traceback.format_exc(limit=4)
        with open(ifn) as f:
            rec["input_same"] = f.read() == INPUT
        with open(ofn) as f:
            new_src = f.read()
        rec["out_same"] = new_src == OUTPUT
        rec["out_src"] = new_src
        try:
            tree1 = ast.parse(new_src)
        except SyntaxError:
            rec["parses"] = False
            return rec
        snap1 = snapshot(tree1)
        addr_to_loc = {a: loc for loc, (a, _) in out_nodes0.items()}
        changed = set()
        for a in set(snap0) | set(snap1):
            if snap0.get(a) != snap1.get(a):
                # a change of an argument also shows in its function's summary only through counts: map to the nearest property address
                loc = addr_to_loc.get(a)
                if loc is None and a in snap0 and snap0[a][0] in ("func", "class", "stmt"):
                    loc = "<%s:%s>" % (snap0[a][0], snap0[a][1] if snap0[a][0] != "stmt" else "stmt")
                if loc is None:
                    loc = "<new:%s>" % (a,)
                changed.add(loc)
        # the addressed node's own default is not judged: drop it from the comparison when only the default differs
        addressed = {o for _, o in sc["pairs"]}
        rec["changed"] = sorted(changed)
        want, got = {}, {}
        for i, o in sc["pairs"]:
            if i not in in_nodes or o not in out_nodes0:
                continue
            n = in_nodes[i][1]
            if sc["eval"]:
                vals = {"choices": ("np", "tf")}.get(i)
                name = o.split(".")[-1]
                ann = "Literal[%s]" % ", ".join(repr(v) for v in vals) if vals else "?"
                if sc["wrap"]:
                    ann = ast.unparse(ast.parse(WRAP.format(output_param=ann)).body[0].value)
            else:
                name = n.arg if isinstance(n, ast.arg) else (n.target.id if isinstance(n, ast.AnnAssign) else n.targets[0].id)
                a = n.annotation if isinstance(n, (ast.arg, ast.AnnAssign)) else n.value     # an un-annotated assignment lends its value (pinned by the suite)
                ann = None if a is None else ast.unparse(a)
                if isinstance(n, ast.Assign) and OUT_LOCS.get(o) not in ("arg", "kwarg"):
                    ann = None        # a plain assignment replacing an attribute / assignment is copied as it is
                if sc["wrap"] and ann is not None and isinstance(n, (ast.arg, ast.AnnAssign)):
                    ann = ast.unparse(ast.parse(WRAP.format(output_param=ann)).body[0].value)
            want[o] = [o, name, ann or "none"]
            addr = out_nodes0[o][0]
            s1 = snap1.get(addr)
            got[o] = [o, s1[1] if s1 else "missing", (s1[2] or "none") if s1 else "missing"]
        rec["want"] = [want[k] for k in sorted(want)]
        rec["got"] = [got[k] for k in sorted(got)]
        return rec
    finally:
        shutil.rmtree(root, ignore_errors=True)


def scenarios(thorough, rnd):
    scs = []
    ins, outs = sorted(IN_LOCS), sorted(OUT_LOCS)
    singles = [(i, o) for i in ins for o in outs]
    for wrap in (False, True):
        for p in singles:
            scs.append({"pairs": [p], "wrap": wrap, "eval": False})
    for o in outs:
        for wrap in (False, True):
            scs.append({"pairs": [("choices", o)], "wrap": wrap, "eval": True})
    multi = 4000 if thorough else 120
    for _ in range(multi):
        k = rnd.choice((2, 2, 3))
        os_ = rnd.sample(outs, k)
        scs.append({"pairs": [(rnd.choice(ins), o) for o in os_], "wrap": rnd.random() < 0.5, "eval": False})
    # an earlier pair whose input is named like a sibling that a later pair addresses (always exercised, see the known finding)
    scs.append({"pairs": [("helper.same", "B.battr"), ("fin.fkw", "B.same")], "wrap": False, "eval": False})
    scs.append({"pairs": [("helper.same", "fout.q"), ("fin.farg", "fout.same")], "wrap": True, "eval": False})
    for i in BOGUS_IN:
        for o in rnd.sample(outs, 3):
            scs.append({"pairs": [(i, o)], "wrap": False, "eval": False})
    for o in BOGUS_OUT:
        for i in rnd.sample(ins, 3):
            scs.append({"pairs": [(i, o)], "wrap": rnd.random() < 0.5, "eval": False})
            scs.append({"pairs": [(rnd.choice(ins), rnd.choice(outs)), (i, o)], "wrap": False, "eval": False})
    # wrapping a property that has no annotation slot (a plain assignment) is declared unsupported by the code
    # (NotImplementedError): outside the domain (D17)
    scs = [s for s in scs if not (s["wrap"] and any(i == "b_plain" for i, _ in s["pairs"]))]
    for idx, s in enumerate(scs):
        s["id"] = "s%d" % idx
    return scs


def run(prop="C14", propose=False, replay=None):
    timer = Timer()
    thorough = tier() == "thorough"
    rnd = random.Random(seed() + 14)
    mcs = [tlc.model_check("SyncProps.tla", "SyncProps.cfg")]
    scs = scenarios(thorough, rnd)
    if replay:
        with open(replay) as f:
            scs = [json.load(f)["scenario"]]
    with Pool(NCPU) as pool:
        res = pool.map(run_one, scs, chunksize=10)
    traces = [{k: r[k] for k in ("id", "wrap", "eval", "pairs", "exc", "input_same", "parses", "out_same", "changed", "got", "want")} for r in res]
    fails, stats = tlc.validate_traces("SyncPropsTrace.tla", "SyncPropsTrace.cfg", traces, shards=8)
    matcher = F.Matcher(prop)
    violations, unmatched = [], []
    by, scby = {r["id"]: r for r in res}, {s["id"]: s for s in scs}
    for tid, fs in fails.items():
        for (_, cl, _) in fs:
            r, sc = by[tid], scby[tid]
            kinds = [[IN_LOCS.get(i, "bogus"), OUT_LOCS.get(o, "bogus")] for i, o in sc["pairs"]]
            extra = sorted(set(r["changed"]) - {o for _, o in sc["pairs"]})
            feat = {"k": "syncprops", "cl": cl, "npairs": len(sc["pairs"]), "wrap": sc["wrap"], "eval": sc["eval"], "kinds": kinds,
                    "in_kind": kinds[0][0], "out_kind": kinds[0][1], "exc": r["exc"], "extra_changed": [("<new>" if x.startswith("<new") else x) for x in extra],
                    "in_ann": (sc["pairs"][0][0] not in ("b_plain",)), "comps": [],
                    # an earlier pair gives its output node the *name* of its input; does a later pair address a sibling of that name?
                    "rename_clash": any(pi[0].split(".")[-1] == pj[1].split(".")[-1] and pi[1].split(".")[:-1] == pj[1].split(".")[:-1] and pi[1] != pj[1]
                                        for a, pi in enumerate(sc["pairs"]) for pj in sc["pairs"][a + 1:])}
            if matcher.match(feat) is None:
                if propose:
                    unmatched.append(feat)
                    continue
                path = R.write_replay(prop, "%s-%s" % (tid, cl), {"property": prop, "clause": cl, "features": feat, "scenario": sc, "record": r})
                violations.append((path, "%s pairs=%s wrap=%s eval=%s exc=%s got=%s want=%s changed=%s" % (cl, sc["pairs"], sc["wrap"], sc["eval"], r["exc"], r["got"], r["want"], r["changed"])))
    for r in mcs:
        if not r["ok"]:
            violations.append((R.write_replay(prop, "mc-" + r["cfg"], r), "TLC: %s violated in %s" % (r["violated"], r["cfg"])))
    if propose:
        from collections import Counter

        c = Counter(json.dumps({k: f[k] for k in ("cl", "npairs", "wrap", "eval", "in_kind", "out_kind", "exc", "extra_changed")}, sort_keys=True) for f in unmatched)
        for k, n in c.most_common(80):
            print(n, k)
        print("unmatched", len(unmatched), "failing traces", len(fails), "of", len(traces))
        return 0
    if replay:
        print(json.dumps({"fails": fails, "record": res[0]}, default=str)[:4000])
        return 1 if violations else 0
    cov = R.mc_summary(mcs)
    cov["states"] += stats["distinct"]
    cov["transitions"] += stats["states"]
    cov.update({"traces_validated_against_impl": len(traces), "failing_traces": len(fails), "known_findings_matched": len(matcher.hits),
                "stale_findings": matcher.stale(), "exhaustive": False,
                "rule": "every (input location, output location) pair of the two generated modules x wrap on/off, eval mode on every output location, "
                        "random 2-3 pair calls, unresolved input / output addresses",
                "samples": [{k: v for k, v in r.items() if k in ("pairs", "wrap", "eval", "exc", "got", "want", "changed")} for r in res[:: max(1, len(res) // 3)][:3]]})
    return R.finish(prop, "model_checking", cov, timer, violations[:200], matcher.report_lines(),
                    ["two fixed modules with 9 / 16 addressable locations (plus same-named parameters in other definitions)",
                     "the addressed node's own default value is not judged; every other node is compared by name, annotation and default"])
