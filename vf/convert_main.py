"""Entry for the Convert family (C01-C06, C08, C18)."""
import json
import os
import random
import re
import sys

from . import convert_check as CC
from . import convert_driver as CD
from . import domain as D
from . import findings as F
from . import runner as R
from . import tlc
from .common import NCPU, Timer, seed, tier

TITLES = {
    "C01": "docstring round trip", "C02": "class round trip", "C03": "function/method round trip",
    "C04": "argparse round trip", "C05": "any-to-any chains", "C06": "emitted code denotes the IR",
    "C08": "fixed point after one pass", "C18": "wrapping / line length transparent",
}


def log(msg, timer):
    if os.environ.get("VERIF_VERBOSE"):
        print("[%7.1fs] %s" % (timer.s(), msg), file=sys.stderr)


def describe(g, ex):
    what = "%s/%s: clause %s observed %s" % (g["k"], ex.get("step", "?"), g["cl"], json.dumps(g["obs"]))
    if "s" in ex:
        what += " for slot [typ,base,stop,ann,def]=%s" % json.dumps(ex["s"])
    return what


def mc_for(prop, thorough):
    runs = [("Convert.tla", "Convert_single.cfg" if thorough else "Convert_single_q.cfg")]
    if thorough or prop == "C05":
        runs.append(("Convert.tla", "Convert_pair.cfg"))
    if thorough and prop in ("C05", "C01"):
        runs.append(("Convert.tla", "Convert_triple.cfg"))
    return runs


def line_lengths(thorough):
    return ["unset"] + ([str(x) for x in range(40, 201, 8)] if thorough else ["40", "72", "120", "200"])


def build_c18(thorough, rnd):
    ts = D.tables(3 if thorough else 1, seed())
    single = CC.load_domain("single")
    triple = CC.load_domain("triple")
    tri_s = rnd.sample(triple, 1500 if thorough else 150)
    wide = CC.wide_domain(800 if thorough else 120, rnd)
    scs = []
    for kind in CC.KINDS:
        o = {"dd": True}
        if kind == "method":
            o["ftype"] = "self"
        acts = [("emit", kind, dict(o, wrap=False)), ("parse",), ("reset",), ("emit", kind, dict(o, wrap=True)), ("parse",)]
        for j, air in enumerate(single + tri_s + wide):
            if not thorough and j % 3 and j >= 50:
                continue
            if kind == "argparse" and not CC.argparse_domain(air):
                continue
            scs.append(CC._sc(len(scs), ts[j % len(ts)], air, acts))
    return scs


def summary_lines(text):
    """Number of lines of the first paragraph of the (first) docstring in an emitted text."""
    m = re.search(r'("""|\'\'\')(.*?)(\1)', text, re.S)
    body = m.group(2) if m else text
    n = 0
    for ln in body.strip("\n").splitlines():
        if not ln.strip():
            if n:
                break
            continue
        if ln.strip().startswith(":") or ln.strip() in ("Parameters", "Args:", "Returns", "Returns:"):
            break
        n += 1
    return n


def ret_wrapped(text):
    """Does the return entry of an emitted docstring (any style, possibly inside code) run over more than one prose line?"""
    lines = text.splitlines()
    for i, ln in enumerate(lines):
        st = ln.strip()
        if st.startswith((":returns:", ":return:")):
            nxt = lines[i + 1] if i + 1 < len(lines) else ""
            if nxt.strip() and not nxt.strip().startswith(":") and len(nxt) - len(nxt.lstrip()) > len(ln) - len(ln.lstrip()):
                return True
        if st in ("Returns", "Returns:") :
            body = []
            for x in lines[i + 1:]:
                if not x.strip():
                    if body:
                        break
                    continue
                if set(x.strip()) == {"-"}:
                    continue
                body.append(x)
            ind = len(ln) - len(ln.lstrip())
            deeper = [x for x in body if len(x) - len(x.lstrip()) > ind]
            if (st == "Returns" and len(deeper) >= 2) or (st == "Returns:" and len(deeper) >= 2):
                return True
    return False


def build_c18_sweep(thorough, rnd):
    """Scenarios for the width sweep: descriptions whose entries carry prose *and* a default (the `Defaults to` sentence is
    where a line break matters most), each rendered without and with word wrap.  Run once per consecutive line length, so
    that the break falls on every position of the announcement for some width."""
    ts = D.tables(0, seed())
    single = CC.load_domain("single")
    cand = [a for a in single if (a["params"] and a["params"][0]["dbase"] == "own" and a["params"][0]["def"] != "absent")
            or (a["ret"]["present"] and a["ret"]["dbase"] == "own" and a["ret"]["def"] != "absent")]
    cand = rnd.sample(cand, min(len(cand), 90 if thorough else 36))
    scs = []
    for kind in CC.KINDS:
        o = {"dd": True}
        if kind == "method":
            o["ftype"] = "self"
        acts = [("emit", kind, dict(o, wrap=False)), ("parse",), ("reset",), ("emit", kind, dict(o, wrap=True)), ("parse",)]
        for j, air in enumerate(cand):
            if kind == "argparse" and not CC.argparse_domain(air):
                continue
            scs.append(CC._sc(len(scs), ts[j % len(ts)], air, acts))
    return scs


def sweep_widths(thorough):
    return [str(x) for x in (range(36, 132) if thorough else range(44, 104))]


def run(prop, propose=False, replay=None):
    timer = Timer()
    thorough = tier() == "thorough"
    rnd = random.Random(seed() * 7919 + 17)
    assumptions = [
        "concretisation tables (vf/domain.py) realise each abstract token class by a few concrete values, not all strings",
        "alpha maps observed values to tokens; unknown values become 'other' which no clause accepts",
        "bounds: <=4 parameters + **kwargs + return; chains of <=3 hops",
    ]
    # ---- step 0: the specification itself
    mcs = []
    mc_fail = []
    if not replay:
        for module, cfg in mc_for(prop, thorough):
            r = tlc.model_check(module, cfg)
            mcs.append(r)
            if not r["ok"]:
                mc_fail.append(r)
    # ---- steps 1-3: enumerate, realise, observe
    results = []
    if replay:
        with open(replay) as f:
            rp = json.load(f)
        tables = {t["id"]: t for t in D.tables(6, rp.get("seed", seed()))}
        tid = rp["scenario"]["table_id"]
        if tid.startswith("S") and tid[1:].isdigit():
            tables[tid] = D.sweep_table(int(tid[1:]))
        if tid == "TK":
            tables[tid] = D.kwargs_named_table()
        scs = [dict(rp["scenario"], table=tables[rp["scenario"]["table_id"]])]
        env_runs = [(rp.get("env") or {}, scs)]
    elif prop == "C18":
        scs = build_c18(thorough, rnd)
        env_runs = []
        for ll in line_lengths(thorough):
            env_runs.append(({} if ll == "unset" else {"DOCTRANS_LINE_LENGTH": ll}, scs))
        sweep = build_c18_sweep(thorough, rnd)
        for ll in sweep_widths(thorough):
            env_runs.append(({"DOCTRANS_LINE_LENGTH": ll, "VERIF_SWEEP": "1"}, sweep))
    else:
        scs = CC.build(prop, thorough, rnd)
        env_runs = [({}, scs)]
    log("mc done, scenarios=%d" % sum(len(g) for _, g in env_runs), timer)
    traces, metas, replays = [], {}, {}
    crashes = []
    # the sweep groups are small: run several interpreters side by side
    from concurrent.futures import ThreadPoolExecutor

    def _sweep_run(eg):
        env, group = eg
        e2 = {k: v for k, v in env.items() if k != "VERIF_SWEEP"}
        return CC.run_scenarios_env([dict(s, table_id=s["table"]["id"]) for s in group], dict(e2, VERIF_WORKER_PROCS="1"))

    sweep_groups = [eg for eg in env_runs if eg[0].get("VERIF_SWEEP")]
    with ThreadPoolExecutor(max_workers=16) as ex:
        sweep_res = dict(zip([eg[0]["DOCTRANS_LINE_LENGTH"] for eg in sweep_groups], ex.map(_sweep_run, sweep_groups)))
    for env, group in env_runs:
        if env.get("VERIF_SWEEP"):
            res, err = sweep_res[env["DOCTRANS_LINE_LENGTH"]]
            env = {k: v for k, v in env.items() if k != "VERIF_SWEEP"}
            tag = "W" + env["DOCTRANS_LINE_LENGTH"] + "-"
            if res is None:
                crashes.append((env, err))
                continue
        elif env or prop == "C18":
            res, err = CC.run_scenarios_env([dict(s, table_id=s["table"]["id"]) for s in group], env)
            tag = "L" + env.get("DOCTRANS_LINE_LENGTH", "u") + "-"
            if res is None:
                # the whole interpreter died under this configuration: every emitter failed to "succeed"
                crashes.append((env, err))
                continue
        else:
            res = CD.run_all(group)
            tag = ""
        for sc, (tr, rp) in zip(group, res):
            tr = dict(tr, id=tag + tr["id"])
            if "driver_exc" in tr:
                raise RuntimeError("driver failure: " + tr["driver_exc"])
            traces.append(tr)
            metas[tr["id"]] = {"table": sc["table"]["id"], "opts": [CD.opts_of(**a[2]) if a[0] == "emit" else None for a in sc["actions"]],
                               "env": env, "sc": sc}
            replays[tr["id"]] = rp
    # ---- step 4: validate against the specification
    log("observed %d traces" % len(traces), timer)
    fails, stats = tlc.validate_traces("ConvertTrace.tla", "ConvertTrace.cfg", traces)
    log("validated: %d failing traces" % len(fails), timer)
    # ---- step 5: decide
    matcher = F.Matcher(prop)
    violations = []
    inst_all = []
    n_inst = 0
    distinct = set()
    by_id = {t["id"]: t for t in traces}
    # triage aid: VERIF_DUMP_FAILS=<file> writes every failing clause instance with the pattern that explains it (or null)
    dump = open(os.environ["VERIF_DUMP_FAILS"], "w") if os.environ.get("VERIF_DUMP_FAILS") else None
    for tr in traces:
        meta = metas[tr["id"]]
        failset = {(s, c, sl) for (s, c, sl) in fails.get(tr["id"], [])}
        seen = set()
        first_fail = min((s for (s, _, _) in failset), default=None)
        for (l, cl, slot, feat) in CC.instances(tr, meta):
            n_inst += 1
            bad = (l, cl, slot) in failset
            feat["prior_fail"] = first_fail is not None and first_fail < l and feat.get("hop", 1) >= 2
            # C18: did the reference rendering (before the reset) already fail a clause of its own?
            resets = [i for i, x in enumerate(tr["ev"], 1) if x["a"] == "reset" and i < l]
            feat["ref_failed"] = bool(resets and any(s_ < resets[-1] for (s_, _, _) in failset))
            feat["ll"] = meta["env"].get("DOCTRANS_LINE_LENGTH", "unset")
            if feat.get("step") == "parse":
                # did word wrap break the line between "Defaults" and "to" in the text this step parses?
                conc = (replays.get(tr["id"]) or {}).get("concrete") or []
                prev_emit = conc[l - 2] if 2 <= l <= len(conc) + 1 and conc[l - 2].get("a") == "emit" else None
                feat["retwrap"] = bool(prev_emit and ret_wrapped(str(prev_emit.get("text") or "")))
                feat["brk"] = bool(prev_emit and any(x.rstrip().lower().endswith("defaults") for x in str(prev_emit.get("text") or "").splitlines()))
            if cl == "TextStable":
                # is the one-line summary of the description spread over several lines in the text just emitted?
                conc = (replays.get(tr["id"]) or {}).get("concrete") or []
                this = conc[l - 1] if 1 <= l <= len(conc) and conc[l - 1].get("a") == "emit" else None
                text_ = str((this or {}).get("text") or "")
                width_ = int(meta["env"].get("DOCTRANS_LINE_LENGTH", 100))
                # ... or does a several-line summary share the docstring with a line that is too long (the second wrapping
                # pass of to_docstring then re-indents every continuation line, those of the summary included)?
                overlong = any(len(x) > width_ for x in text_.splitlines())
                feat["sumwrap"] = bool(this and summary_lines(text_) > 1 and (meta["sc"]["air"]["doc"] == "one" or overlong))
            seen.add((l, cl, slot))
            if not bad:
                if propose:
                    matcher.note_pass(feat)
                continue
            if bad:
                distinct.add(CC.sha({k: v for k, v in feat.items() if k not in ("tb", "_replay")}))
                hit = matcher.match(feat)
                if dump is not None:
                    dump.write(json.dumps({"id": tr["id"], "l": l, "cl": cl, "slot": slot, "pattern": hit["id"] if hit else None,
                                           "feat": {k: v for k, v in feat.items() if k not in ("tb", "_replay")}}, default=str) + "\n")
                if hit is None:
                    if propose:
                        inst_all.append(feat)
                        continue
                    sc = meta["sc"]
                    path = R.write_replay(prop, "%s-%d-%s-%s" % (tr["id"], l, cl, slot.replace(":", "_")), {
                        "property": prop, "clause": cl, "step": l, "slot": slot, "features": feat, "seed": seed(), "env": meta["env"],
                        "scenario": {"id": sc["id"], "table_id": sc["table"]["id"], "air": sc["air"], "actions": sc["actions"], "files": sc.get("files", False)},
                        "trace": tr, "concrete": (replays.get(tr["id"]) or {}).get("concrete"),
                    })
                    violations.append((path, "%s step %d clause %s slot %s obs=%s" % (feat.get("k"), l, cl, slot, json.dumps(feat.get("obs")))))
        missing = failset - seen
        if missing:
            raise tlc.TLCError("TLC reported clause instances unknown to the signature builder: %r in %s" % (sorted(missing), tr["id"]))
    for env, err in crashes:
        feat = {"k": "*", "cl": "ProcessStarts", "obs": "crash", "env": env, "comps": []}
        if matcher.match(feat) is None and propose:
            inst_all.append(feat)
        elif matcher.match(feat) is None:
            path = R.write_replay(prop, "crash-" + "-".join("%s=%s" % kv for kv in env.items()), {"property": prop, "env": env, "stderr": err})
            violations.append((path, "interpreter with %r could not run any emitter: %s" % (env, err[-300:])))
    for r in mc_fail:
        path = R.write_replay(prop, "mc-" + r["cfg"], r)
        violations.append((path, "TLC: %s violated in %s" % (r["violated"], r["cfg"])))
    log("instances %d" % n_inst, timer)
    if propose:
        print(F.summarise(inst_all))
        print(json.dumps(matcher.stats(), indent=0))
        print("unmatched failing instances: %d; failing traces %d of %d" % (len(inst_all), len(fails), len(traces)))
        return 0
    if replay:
        for tr in traces:
            print(json.dumps({"id": tr["id"], "fails": fails.get(tr["id"], [])}))
        return 1 if violations else 0
    cov = R.mc_summary(mcs)
    cov["states"] += stats["distinct"]
    cov["transitions"] += stats["states"]
    cov.update({
        "traces_validated_against_impl": len(traces),
        "trace_validation": stats,
        "clause_instances_evaluated": n_inst,
        "failing_traces": len(fails),
        "distinct_failure_signatures": len(distinct),
        "known_findings_matched": len(matcher.hits),
        "stale_findings": matcher.stale()[:50],
        "environments": [e for e, _ in env_runs],
        "samples": [by_id[t["id"]] for t in traces[:: max(1, len(traces) // 3)][:3]],
        "exhaustive": False,
        "rule": "scenario = (table, abstract IR from TLC-exported domain, action list); each emit/parse event is checked by TLC against "
                "every named clause of ConvertRel.tla; distinct = distinct failure signatures",
    })
    return R.finish(prop, "model_checking", cov, timer, violations[:200], matcher.report_lines(), assumptions)
