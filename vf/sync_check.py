"""C09 / C10 / C11 / C20 (sync half): Sync.tla model-checked; real `sync` histories recorded and validated by TLC.

A history = a project (one file per kind, built from an abstract pre-state), a truth kind, the kinds given, and a list of
steps: sync | edit (the user changes the truth to the other version) | sync with an injected fault.  After every step each
file is observed with Python's own `ast` (never doctrans): missing / empty / partial (does not parse) / mod, the ids of the
statements around the named definition, and the interface version of the definition as Python sees it.
"""
import ast
import contextlib
import hashlib
import io
import json
import os
import random
import shutil
import subprocess
import sys
import tempfile
import traceback
from argparse import Namespace
from collections import OrderedDict
from multiprocessing import Pool

from . import findings as F
from . import runner as R
from . import tlc
from .common import NCPU, PY, VERIF, Timer, child_env, import_doctrans, seed, tier

KINDS = ("argparse", "class", "function")
NS_KEY = {"argparse": "argparse_function", "class": "class", "function": "function"}
NAMES = {"argparse": "set_cli_args", "class": "ConfigClass"}

SIG = {
    "v1": [("dataset_name", "str", "mnist"), ("epochs", "int", 5)],
    "v2": [("dataset_name", "str", "cifar"), ("epochs", "int", 5), ("verbose", "bool", True)],
}
PROSE = {"dataset_name": "name of dataset.", "epochs": "number of epochs.", "verbose": "whether to log."}


def ir_of(ver):
    params = OrderedDict()
    for n, t, d in SIG[ver]:
        params[n] = {"typ": t, "doc": PROSE[n], "default": d}
    returns = None
    if ver == "v2":
        # the second version also has a return entry: what one emitter does with it must not leak into the next target
        returns = OrderedDict([("return_type", {"typ": "int", "doc": "the score.", "default": "```len(dataset_name)```"})])
    return {"name": None, "type": "static", "doc": "Train the model.", "params": params, "returns": returns}


# ------------------------------------------------------------------------------------------------ surrounding statements
STMTS = {
    "s0": '"""Helpers for the experiment."""',
    "s1": "import os",
    "s2": "def helper(dataset_name, epochs=3):\n    return dataset_name",
    "s3": "LIMIT = 10",
    "t1": "class Other(object):\n    def f(self, dataset_name):\n        return dataset_name",
    "t2": "def set_cli_args_extra(argument_parser):\n    return argument_parser",
    # look-alikes: names that contain the name of the definition being synchronised, placed *before* it
    "s4": "class BaseConfigClass(object):\n    size: int = 1",
    "s5": "def pre_set_cli_args(argument_parser):\n    return argument_parser",
    # other parameter kinds in a neighbour: positional-only, *args, keyword-only, **kwargs (also a look-alike of `f`)
    "s6": "def fetch(a, /, b=2, *args, c=None, **kw):\n    return a",
    "t3": "async def fetch_async(url, *, retries: int = 3) -> str:\n    return url",
    # the synchronised name bound a second time, after its definition (the register-after-the-fact idiom)
    # a top-level namesake of the two inner segments of a three-deep target `Pkg.Outer.ConfigClass`
    "s7": "class Outer(object):\n    class ConfigClass(object):\n        decoy: int = 1",
    "r1": "ConfigClass = ConfigClass",
    "r2": "set_cli_args = set_cli_args",
    "r3": "f = f",
}
MEMBERS = {
    "m1": "limit: int = 3",
    "m2": "def g(self, epochs):\n    return epochs",
    "m3": "def fetch(self, x, /, y=1):\n    return x",
    "m4": "f = f",
}


def _dump(src):
    return ast.dump(ast.parse(src).body[0])


_STMT_BY_DUMP = {_dump(v): k for k, v in STMTS.items()}
_MEM_BY_DUMP = {_dump(v): "C." + k for k, v in MEMBERS.items()}
_MEMN_BY_DUMP = {}       # filled below (MEMBERS_NESTED is defined after _dump)


def inside(kind, ctx):
    """Is the definition of this kind a member of a class in this context?  method: `C.f`; nested: `Outer.ConfigClass`."""
    return (kind == "function" and ctx == "method") or (kind == "class" and ctx in ("nested", "deep"))


CONTAINER = {"function": "C", "class": "Outer"}
MEMBERS_NESTED = {"m1": "limit: int = 3", "m2": "def g(self, epochs):\n    return epochs", "m3": "class BaseConfigClass(object):\n    size: int = 1",
                  "m4": "ConfigClass = ConfigClass"}


_MEMN_BY_DUMP.update({_dump(v): "C." + k for k, v in MEMBERS_NESTED.items()})


def _indent(src, n=4):
    return "\n".join((" " * n + line) if line else line for line in src.splitlines())


# ------------------------------------------------------------------------------------------------ building files

def definition_text(kind, ver, ctx, canon=True):
    """Text of the named definition in version `ver`, produced by doctrans' own emitter (as sync would write it)."""
    import_doctrans()
    from doctrans import emit

    ir = ir_of(ver)
    if kind == "class":
        node = emit.class_(ir, class_name="ConfigClass", emit_default_doc=False)
    elif kind == "argparse":
        node = emit.argparse_function(ir, function_name="set_cli_args", function_type="static", emit_default_doc=False)
    else:
        node = emit.function(ir, function_name="f", function_type=("self" if ctx == "method" else "static"), emit_default_doc=False)
    fd, fn = tempfile.mkstemp(suffix=".py")
    os.close(fd)
    try:
        emit.file(node, fn, mode="wt", skip_black=False)
        with open(fn) as f:
            text = f.read().rstrip("\n")
    finally:
        os.unlink(fn)
    if not canon:
        # a hand-written, agreeing definition: same interface, other bytes (comment + different quoting of the docstring)
        lines = text.splitlines()
        lines.insert(1, "    # hand-written")
        text = "\n".join(lines).replace('"""', "'''")
    return text


DOCEXTRA_FUNC = '''def f({self}dataset_name: str = "mnist", epochs: int = 5, **kwargs):
    """
    Train the model.

    :param dataset_name: name of dataset.

    :param epochs: number of epochs.

    :param kwargs: forwarded on

    :param momentum: passed through kwargs

    :param nesterov: passed through kwargs
    """
    return None'''


def build_file(kind, st, ctx):
    """abstract pre-state -> file text (None = missing).  st: dict(st, b, d, a, canon, nl)."""
    if st["st"] == "missing":
        return None
    if st["st"] == "empty":
        return ""
    if st.get("docextra") and kind == "function":
        # a hand-written truth whose docstring documents two names that are not parameters (keys forwarded through **kwargs)
        src = DOCEXTRA_FUNC.format(self="self, " if ctx == "method" else "")
        return (("class C(object):\n" + _indent(src)) if ctx == "method" else src) + "\n"
    top_b = [x for x in st["b"] if not x.startswith("C.")]
    top_a = [x for x in st["a"] if not x.startswith("C.")]
    mem_b = [x[2:] for x in st["b"] if x.startswith("C.")]
    mem_a = [x[2:] for x in st["a"] if x.startswith("C.")]
    parts = [STMTS[x] for x in top_b]
    d = None if st["d"] == "absent" else definition_text(kind, st["d"], ctx, st.get("canon", True))
    if inside(kind, ctx):
        mem = MEMBERS if kind == "function" else MEMBERS_NESTED
        members = [mem[x] for x in mem_b] + ([d] if d is not None else []) + [mem[x] for x in mem_a]
        if st.get("has_class", True):
            block = "class %s(object):\n" % CONTAINER[kind] + ("\n\n".join(_indent(m) for m in members) if members else "    pass")
            if kind == "class" and ctx == "deep":
                block = "class Pkg(object):\n" + _indent(block)
            parts.append(block)
    elif d is not None:
        parts.append(d)
    parts += [STMTS[x] for x in top_a]
    text = "\n\n\n".join(parts)
    nl = st.get("nl", True)
    # nl: True = terminated; False = unterminated last line; "space" / "indent" = unterminated and ending in a blank
    return text + {True: "\n", False: "", "space": " ", "indent": "\n    "}[nl]


# ------------------------------------------------------------------------------------------------ observing files

def _lit(node):
    try:
        return ast.literal_eval(node)
    except Exception:
        return ast.unparse(node)


def _signature(kind, node):
    """[(name, type, default)] as Python's ast shows it, plus whether every parameter's prose is present."""
    sig = []
    doc = ast.get_docstring(node) or ""
    helps = {}
    if kind == "class":
        for st in node.body:
            if isinstance(st, ast.AnnAssign) and isinstance(st.target, ast.Name) and st.target.id != "return_type":
                sig.append((st.target.id, ast.unparse(st.annotation), _lit(st.value) if st.value is not None else None))
    elif kind == "function":
        a = node.args
        pos = [x for x in a.args if x.arg not in ("self", "cls")]
        defaults = [None] * (len(a.args) - len(a.defaults)) + list(a.defaults)
        dmap = {x.arg: d for x, d in zip(a.args, defaults)}
        for x in pos:
            sig.append((x.arg, ast.unparse(x.annotation) if x.annotation else None, _lit(dmap[x.arg]) if dmap.get(x.arg) is not None else None))
        for x, d in zip(a.kwonlyargs, a.kw_defaults):
            sig.append((x.arg, ast.unparse(x.annotation) if x.annotation else None, _lit(d) if d is not None else None))
    else:
        for st in node.body:
            if isinstance(st, ast.Expr) and isinstance(st.value, ast.Call) and isinstance(st.value.func, ast.Attribute) \
                    and st.value.func.attr == "add_argument":
                name = _lit(st.value.args[0])[2:]
                kw = {k.arg: k.value for k in st.value.keywords}
                typ = ast.unparse(kw["type"]) if "type" in kw else "str"
                sig.append((name, typ, _lit(kw["default"]) if "default" in kw else None))
                helps[name] = _lit(kw["help"]) if "help" in kw else ""
    prose_ok = all((PROSE.get(n, "\0").rstrip(".") in (helps.get(n, "") if kind == "argparse" else doc)) for n, _, _ in sig)
    return sig, prose_ok


def _version(kind, node):
    sig, prose_ok = _signature(kind, node)
    for v, want in SIG.items():
        if sig == want and prose_ok:
            return v
    return "other"


def observe(path, kind, ctx):
    if not os.path.exists(path):
        return {"st": "missing", "b": [], "d": "absent", "a": []}
    with open(path) as f:
        src = f.read()
    if not src.strip():
        return {"st": "empty", "b": [], "d": "absent", "a": []}
    try:
        tree = ast.parse(src)
    except SyntaxError:
        return {"st": "partial", "b": [], "d": "absent", "a": []}
    b, a, d, seen = [], [], "absent", False

    def ident(st, table, prefix=""):
        k = table.get(ast.dump(st))
        if k:
            return k
        return prefix + "extra:" + (getattr(st, "name", None) or type(st).__name__)

    want_type = ast.ClassDef if kind == "class" else ast.FunctionDef
    want_name = NAMES.get(kind, "f")
    mem_table = _MEM_BY_DUMP if kind == "function" else _MEMN_BY_DUMP
    for st in tree.body:
        if kind == "class" and ctx == "deep" and isinstance(st, ast.ClassDef) and st.name == "Pkg" and len(st.body) == 1 \
                and isinstance(st.body[0], ast.ClassDef) and st.body[0].name == "Outer":
            st = st.body[0]
        elif kind == "class" and ctx == "deep" and isinstance(st, ast.ClassDef) and st.name == CONTAINER[kind]:
            (a if seen else b).append(ident(st, _STMT_BY_DUMP))      # the top-level namesake is an ordinary neighbour
            continue
        if inside(kind, ctx) and isinstance(st, ast.ClassDef) and st.name == CONTAINER[kind]:
            for m in st.body:
                if isinstance(m, want_type) and m.name == want_name and not seen:
                    seen, d = True, _version(kind, m)
                elif isinstance(m, ast.Pass) and len(st.body) == 1:
                    continue
                else:
                    (a if seen else b).append(ident(m, mem_table, "C."))
            continue
        if isinstance(st, want_type) and st.name == want_name and not seen and not inside(kind, ctx):
            seen, d = True, _version(kind, st)
            continue
        (a if seen else b).append(ident(st, _STMT_BY_DUMP))
    if not seen:
        b, a = b + a, []
    return {"st": "mod", "b": b, "d": d, "a": a}


# ------------------------------------------------------------------------------------------------ running sync

class Fault(Exception):
    pass


def _paths(root, twin=False):
    d = {k: os.path.join(root, {"argparse": "argparse_mod.py", "class": "classes.py", "function": "methods.py"}[k]) for k in KINDS}
    if twin:
        d["twin"] = os.path.join(root, "second_of_truth_kind.py")
    return d


def _digest(path):
    if not os.path.exists(path):
        return "missing"
    with open(path, "rb") as f:
        return hashlib.sha256(f.read()).hexdigest()[:16]


def spelled(root, spell):
    """The directory as it is named on the command line: as it is, through a symbolic link, or relative to the cwd."""
    if spell == "link":
        link = root + "-lnk"
        if not os.path.islink(link):
            os.symlink(root, link)
        return link
    if spell == "rel":
        return os.path.join(".", "..", os.path.basename(root))
    return root


def run_sync(root, truth, given, ctx, fault=None, via_cli=False, spell="plain", twin=False, hashseed=0, twin_kind=None):
    """One invocation.  Returns dict(exc, report, printed, status).  twin: a second file of the truth's kind exists."""
    paths = _paths(spelled(root, spell), twin)      # what the command line says
    FILES = KINDS + (("twin",) if twin else ())
    fname = "C.f" if ctx == "method" else "f"
    names = {"argparse": "set_cli_args", "function": fname,
             "class": {"nested": "Outer.ConfigClass", "deep": "Pkg.Outer.ConfigClass"}.get(ctx, "ConfigClass")}

    def files_of(k):     # the truth file first (the command line's first file of the truth's kind is the truth)
        return [paths[k]] + ([paths["twin"]] if twin and k == (twin_kind or truth) and "twin" in given else [])

    if via_cli:
        argv = ["sync", "--truth", NS_KEY[truth]]
        for k in KINDS:
            if k in given:
                for fn in files_of(k):
                    argv += ["--" + NS_KEY[k].replace("_", "-"), fn]
                argv += ["--" + NS_KEY[k].replace("_", "-") + "-name", names[k]]
        # every command-line invocation is its own interpreter: string hashing differs from run to run
        p = subprocess.run([PY, "-m", "doctrans"] + argv, cwd=root, env=child_env(PYTHONHASHSEED=hashseed), stdout=subprocess.PIPE, stderr=subprocess.PIPE, text=True)
        paths = {k: (os.path.join(root, v) if not os.path.isabs(v) else v) for k, v in paths.items()}
        out = p.stdout
        exc = "none" if p.returncode == 0 and "Traceback" not in p.stderr else ("exit%d" % p.returncode if "Traceback" not in p.stderr else
                                                                                p.stderr.strip().splitlines()[-1].split(":")[0])
        report = {k: "none" for k in FILES}
    else:
        import_doctrans()
        import doctrans.conformance as conformance
        import doctrans.emit as emit

        args = Namespace(truth=NS_KEY[truth])
        for k in KINDS:
            setattr(args, NS_KEY[k] + ("es" if k == "class" else "s"), files_of(k) if k in given else None)
            setattr(args, NS_KEY[k] + "_names", [names[k]] if k in given else None)
        buf = io.StringIO()
        exc, eff = "none", None
        undo = []
        cwd = os.getcwd()
        try:
            os.chdir(root)
            if fault:
                undo = _inject(fault, emit, conformance)
            with contextlib.redirect_stdout(buf):
                # __main__ hands over the truth file as realpath(expanduser(<what was typed>))
                eff = conformance.ground_truth(args, os.path.realpath(os.path.expanduser(paths[truth])))
        except Fault:
            exc = "Fault"
        except BaseException as e:      # noqa: B902  (SystemExit included)
            exc = type(e).__name__
        finally:
            for u in undo:
                u()
            os.chdir(cwd)
        paths = {k: (os.path.join(root, v) if not os.path.isabs(v) else v) for k, v in paths.items()}
        out = buf.getvalue()
        report = {k: "none" for k in FILES}
        if eff is not None:
            for k in FILES:
                rp = os.path.realpath(paths[k])
                if rp in eff:
                    report[k] = "true" if eff[rp] else "false"
    printed = {k: "none" for k in FILES}
    for line in out.splitlines():
        parts = line.split("\t")
        if len(parts) == 2 and parts[0] in ("modified", "unchanged"):
            for k in FILES:
                if os.path.realpath(parts[1]) == os.path.realpath(paths[k]):
                    printed[k] = parts[0]
    return {"exc": exc, "report": report, "printed": printed}


def _inject(fault, emit, conformance):
    """fault: ("write", n, phase) -- the n-th open() of emit.file fails before open / after open / in mid-write;
              ("conv", n)         -- the n-th emitter call of the invocation raises."""
    undo = []
    if fault[0] == "write":
        n, phase = fault[1], fault[2]
        count = {"n": 0}
        real_open = open

        class Half:
            def __init__(self, f):
                self.f = f

            def __enter__(self):
                return self

            def __exit__(self, *a):
                self.f.close()
                return False

            def write(self, s):
                if phase == "mid":
                    self.f.write(s[: len(s) // 2])
                    self.f.flush()
                raise Fault("injected write fault")

        def fake_open(name, mode="r", *a, **k):
            if any(c in mode for c in "wax+"):
                count["n"] += 1
                if count["n"] == n:
                    if phase == "before":
                        raise Fault("injected open fault")
                    return Half(real_open(name, mode, *a, **k))
            return real_open(name, mode, *a, **k)

        emit.open = fake_open
        undo.append(lambda: delattr(emit, "open"))
    else:
        n = fault[1]
        count = {"n": 0}
        for fn in ("argparse_function", "class_", "function"):
            real = getattr(emit, fn)

            def wrapper(*a, _real=real, **k):
                count["n"] += 1
                if count["n"] == n:
                    raise Fault("injected conversion fault")
                return _real(*a, **k)

            setattr(emit, fn, wrapper)
            undo.append(lambda fn=fn, real=real: setattr(emit, fn, real))
    return undo


def edit_truth(root, truth, ctx, to_ver, pre_state):
    """The user rewrites the truth definition by hand to the other version (non-canonical text)."""
    st = dict(pre_state, d=to_ver, canon=False)
    text = build_file(truth, st, ctx)
    with open(_paths(root)[truth], "w") as f:
        f.write(text)


def run_history(h):
    """h: dict(id, truth, given, ctx, init{kind: state}, steps[("sync"|"sync_cli"|"edit"|("fault", ...))])"""
    try:
        return _run_history(h)
    except Exception:
        return {"id": h["id"], "driver_exc": traceback.format_exc()}, None


def _run_history(h):
    root = tempfile.mkdtemp(prefix="sync-")
    try:
        twin = "twin" in h["init"]
        paths = _paths(root, twin)
        ctx = h["ctx"]
        FILES = KINDS + (("twin",) if twin else ())
        kind_of = {k: k for k in KINDS}
        kind_of["twin"] = h["truth"]
        for k in FILES:
            text = build_file(kind_of[k], h["init"][k], ctx)
            if text is not None:
                with open(paths[k], "w") as f:
                    f.write(text)
        init_obs = {k: observe(paths[k], kind_of[k], ctx) for k in FILES}
        events, concrete = [], []
        cur_truth_state = dict(h["init"][h["truth"]])
        cur_truth = h["truth"]
        for step_no, step in enumerate(h["steps"]):
            if isinstance(step, (list, tuple)) and step[0] == "truth":
                # from now on another of the named files is the truth (no invocation by itself) - provided the last invocation
                # brought it into agreement (Sync.tla: SwitchTruth needs `synced`); otherwise the history goes on as it was
                o_new, o_old = observe(paths[step[1]], step[1], ctx), observe(paths[cur_truth], cur_truth, ctx)
                if o_new["d"] in SIG and o_new["d"] == o_old["d"]:
                    cur_truth = step[1]
                concrete.append({"a": "truth", "to": cur_truth})
                continue
            before = {k: _digest(paths[k]) for k in FILES}
            if step == "edit":
                other = "v2" if observe(paths[h["truth"]], h["truth"], ctx)["d"] == "v1" else "v1"
                edit_truth(root, h["truth"], ctx, other, cur_truth_state)
                cur_truth_state["d"] = other
                events.append({"a": "edit", "post": {k: observe(paths[k], kind_of[k], ctx) for k in FILES}})
                concrete.append({"a": "edit", "to": other})
                continue
            fault = None
            if isinstance(step, (list, tuple)) and step[0] == "fault":
                fault = tuple(step[1:])
            res = run_sync(root, cur_truth, h["given"], ctx, fault=fault, via_cli=(step == "sync_cli"), spell=h.get("spell", "plain"), twin=twin, hashseed=(step_no * 7 + 1) % 11, twin_kind=h["truth"])
            after = {k: _digest(paths[k]) for k in FILES}
            ev = {"a": "sync", "truth": cur_truth, "exc": res["exc"], "fault": ("none" if not fault else ":".join(map(str, fault))),
                  "post": {k: observe(paths[k], kind_of[k], ctx) for k in FILES},
                  "changed": {k: before[k] != after[k] for k in FILES}, "report": res["report"], "printed": res["printed"]}
            if step == "sync_cli":
                # the CLI prints nothing for created / appended files and returns no report: judge by bytes only
                ev["report"] = {k: ("true" if ev["changed"][k] else "false") for k in FILES}
            events.append(ev)
            files = {}
            for k in FILES:
                if os.path.exists(paths[k]):
                    with open(paths[k], errors="replace") as f:
                        files[k] = f.read()
            concrete.append({"a": "sync", "via": step if isinstance(step, str) else "fault", "exc": res["exc"], "files": files})
        trace = {"id": h["id"], "truth": h["truth"], "given": list(h["given"]), "init": init_obs, "ev": events}
        return trace, {"history": h, "concrete": concrete}
    finally:
        shutil.rmtree(root, ignore_errors=True)
        if os.path.islink(root + "-lnk"):
            os.unlink(root + "-lnk")


# ------------------------------------------------------------------------------------------------ scenarios

def pre_states(kind, ctx, rnd, rich):
    """Abstract pre-states of a *target* file (Sync.tla: PreStates, refined with frames and newline)."""
    frames = [([], []), (["s1"], []), (["s1", "s2"], ["t1"]), (["s4", "s5", "s6"], ["t3"]), (["s3"], ["t2"])]
    if inside(kind, ctx):
        frames = [([], []), (["s1", "C.m1"], ["C.m2"]), (["s2", "C.m1"], ["C.m2", "t1"]), (["s6", "C.m3"], ["C.m2", "t3"]), ([], ["C.m2"])]
    if kind == "class" and ctx == "deep":
        frames = [(["s7"], []), (["s1", "s7", "C.m1"], ["C.m2"]), (["C.m1"], ["C.m2", "s7"]), (["s7", "C.m3"], ["C.m2", "t3"]), (["s7"], ["C.m2"])]
    out = [{"st": "missing"}, {"st": "empty"}]
    for b, a in (frames if rich else frames[:4]):
        out.append({"st": "mod", "b": b, "d": "absent", "a": a, "nl": True})
        for d in ("v1", "v2"):
            out.append({"st": "mod", "b": b, "d": d, "a": a, "canon": True, "nl": True})
    out.append({"st": "mod", "b": frames[1][0], "d": "absent", "a": [], "nl": False})
    out.append({"st": "mod", "b": ["s3"], "d": "absent", "a": [], "nl": "space"})
    out.append({"st": "mod", "b": frames[1][0], "d": "absent", "a": [], "nl": "indent"})
    if not inside(kind, ctx):
        out.append({"st": "mod", "b": ["s0", "s1"], "d": "v1", "a": ["t1"], "canon": True, "nl": True})
        out.append({"st": "mod", "b": ["s0"], "d": "v2", "a": [], "canon": True, "nl": True})
        out.append({"st": "mod", "b": ["s0", "s3"], "d": "absent", "a": [], "nl": True})
    out.append({"st": "mod", "b": frames[1][0], "d": "v1", "a": frames[1][1], "canon": False, "nl": True})
    if not inside(kind, ctx):
        # exactly what sync writes, but for the newline at the very end (an editor saved it that way)
        out.append({"st": "mod", "b": [], "d": "v1", "a": [], "canon": True, "nl": False})
        out.append({"st": "mod", "b": [], "d": "v2", "a": [], "canon": True, "nl": False})
    # the name is bound again after the definition: the definition is the first binding
    rebind = ["C.m4"] if inside(kind, ctx) else {"class": ["r1"], "argparse": ["r2"], "function": ["r3"]}[kind]
    for d in ("v1", "v2"):
        out.append({"st": "mod", "b": frames[1][0], "d": d, "a": rebind + ([] if inside(kind, ctx) else ["t1"]), "canon": True, "nl": True})
    if inside(kind, ctx):
        out.append({"st": "mod", "b": ["s1"], "d": "absent", "a": [], "nl": True, "has_class": False})
    for s in out:
        s.setdefault("b", [])
        s.setdefault("a", [])
        s.setdefault("d", "absent")
    return out


def truth_states(kind, ctx):
    fr = (["s1"], ["t1"]) if not inside(kind, ctx) else (["s1", "C.m1"], ["C.m2"])
    return [{"st": "mod", "b": [], "d": "v1", "a": [], "canon": True, "nl": True},
            {"st": "mod", "b": fr[0], "d": "v2", "a": fr[1], "canon": False, "nl": True},
            {"st": "mod", "b": fr[0], "d": "v1", "a": fr[1], "canon": False, "nl": True}]


def histories(prop, thorough, rnd):
    hs = []
    shapes = {
        "C09": [["sync"], ["sync_cli"]],
        "C10": [["sync", "sync"], ["sync", "sync", "edit", "sync", "sync"], ["sync_cli", "sync_cli"], ["sync", "edit", "sync"],
                ["sync", "sync", ("truth", "NEXT"), "sync", "sync"]],
        "C11": [["sync"], ["sync", "sync"]],
    }[prop]
    n_per = 40 if thorough else 8
    for truth in KINDS:
        for given in ([KINDS] + [[truth, k] for k in KINDS if k != truth]):
            for ctx in ("top", "method", "nested", "deep"):
                ts = truth_states(truth, ctx)
                for shape in shapes:
                    if "sync_cli" in shape and not thorough and rnd.random() < 0.6:
                        continue
                    if any(isinstance(x, tuple) for x in shape) and not thorough and rnd.random() < 0.5:
                        continue
                    combos = []
                    targets = [k for k in KINDS if k != truth]
                    p0 = pre_states(targets[0], ctx, rnd, thorough)
                    p1 = pre_states(targets[1], ctx, rnd, thorough)
                    # every pre-state of each target at least once, the other one random
                    for s in p0:
                        combos.append((s, rnd.choice(p1)))
                    for s in p1:
                        combos.append((rnd.choice(p0), s))
                    rnd.shuffle(combos)
                    for c in combos:
                        init = {truth: rnd.choice(ts), targets[0]: c[0], targets[1]: c[1]}
                        # ("truth", "NEXT"): another of the given kinds becomes the truth for the following invocations
                        nxt = [k for k in given if k != truth][len(hs) % (len(given) - 1)]
                        hs.append({"truth": truth, "given": list(given), "ctx": ctx, "init": init,
                                   "steps": [(("truth", nxt) if isinstance(x, tuple) else x) for x in shape]})
    if prop == "C10":
        # separate interpreters (different string hashing) and a truth that documents names which are not parameters:
        # what the first run wrote must be what the next runs would write
        for ctx in ("top", "method"):
            for given in (list(KINDS), ["function", "class"]):
                for pre in ({"st": "missing"}, {"st": "mod", "b": ["s1"], "d": "v1", "a": [], "canon": True, "nl": True}):
                    init = {"function": {"st": "mod", "b": [], "d": "v1", "a": [], "canon": False, "nl": True, "docextra": True},
                            "class": dict(pre), "argparse": {"st": "missing"}}
                    for st in init.values():
                        st.setdefault("b", []), st.setdefault("a", []), st.setdefault("d", "absent")
                    hs.append({"truth": "function", "given": given, "ctx": ctx, "init": init, "steps": ["sync_cli", "sync_cli", "sync_cli", "sync_cli"]})
    if not thorough:
        keep = 700 if prop != "C10" else 450

        def special(h):     # rare shapes are always kept (and a share of the histories that alternate the truth): module docstring, unterminated last line, hand-written, class missing
            return any(("s0" in st.get("b", [])) or st.get("docextra") or st.get("nl", True) is not True or st.get("canon", True) is False or st.get("has_class", True) is False
                       or any(x in ("r1", "r2", "r3", "C.m4") for x in st.get("a", []))
                       for st in h["init"].values())

        always = [h for h in hs if any(st.get("docextra") for st in h["init"].values())]
        hs = [h for h in hs if h not in always]
        must = [h for h in hs if special(h)]
        rest = [h for h in hs if not special(h)]
        if len(must) > keep // 2:
            must = rnd.sample(must, keep // 2)
        hs = always + must + rnd.sample(rest, min(len(rest), keep - len(must)))
    for i, h in enumerate(hs):
        h["id"] = "h%d" % i
        # how the files are named on the command line (Sync.tla: spell): plain, through a symbolic link, relative
        h["spell"] = {1: "link", 3: "rel"}.get(i % 5, "plain")
        if i % 4 == 2:
            # a second file of the truth's kind is named too (Sync.tla: Twin): an ordinary target
            h["init"] = dict(h["init"], twin=rnd.choice(pre_states(h["truth"], h["ctx"], rnd, False)))
            h["given"] = list(h["given"]) + ["twin"]
    return hs


def fault_histories(thorough, rnd):
    """C20: one fault per invocation, at every conversion step and at every write (before open / after open / mid-write)."""
    hs = []
    for truth in KINDS:
        targets = [k for k in KINDS if k != truth]
        for ctx in ("top", "method"):
            ts = truth_states(truth, ctx)
            pres = [{"st": "missing"}, {"st": "empty"},
                    {"st": "mod", "b": ["s1"], "d": "absent", "a": [], "nl": True},
                    {"st": "mod", "b": ["s1"], "d": "v2", "a": ["t1"] if ctx == "top" else [], "canon": True, "nl": True}]
            for s in pres:
                s.setdefault("b", [])
                s.setdefault("a", [])
                s.setdefault("d", "absent")
            combos = [(a, b) for a in pres for b in pres]
            if not thorough:
                combos = rnd.sample(combos, 6)
            for c in combos:
                init = {truth: ts[rnd.randrange(len(ts))], targets[0]: c[0], targets[1]: c[1]}
                for f in [("fault", "write", n, ph) for n in (1, 2) for ph in ("before", "after", "mid")] + [("fault", "conv", n) for n in (1, 2, 3)]:
                    hs.append({"truth": truth, "given": list(KINDS), "ctx": ctx, "init": init, "steps": [f, "sync"]})
    for i, h in enumerate(hs):
        h["id"] = "f%d" % i
    return hs


# ------------------------------------------------------------------------------------------------ features / check

CLAUSES_OF = {
    "C09": {"Agreement", "NoInternalError"},
    "C10": {"Idempotent", "TruthUntouched", "ReportTruthful", "PrintTruthful", "Untouched", "NoInternalError"},
    "C11": {"FrameKept", "StillParses", "NoInternalError"},
    "C20": {"OldOrNew", "StillParses", "TruthUntouched", "Untouched", "NoInternalError"},
}


def feat_of(trace, hist, step, clause, kind):
    e = trace["ev"][step - 1]
    cur = trace["init"]
    for ev in trace["ev"][: step - 1]:
        cur = ev["post"]
    ctx = hist["ctx"]
    ev_steps = [x for x in hist["steps"] if not (isinstance(x, (list, tuple)) and x[0] == "truth")]     # steps that produce an event
    tr_kind = e.get("truth", trace["truth"])        # the truth of *this* invocation (alternating truth kinds)
    trace = dict(trace, truth=tr_kind)
    f = {"k": "sync", "cl": clause, "truth": trace["truth"], "ngiven": len(trace["given"]), "ctx": ctx, "target": kind,
         "fault": e.get("fault", "none").split(":")[0] if e.get("fault", "none") != "none" else "none",
         "exc": e.get("exc", "none"), "step": step, "via": ev_steps[step - 1] if isinstance(ev_steps[step - 1], str) else "fault", "comps": [],
         "switched": tr_kind != hist["truth"]}
    f["twin"] = kind == "twin"
    if kind == "twin":
        f["target"] = hist["truth"]           # a second file of the (first) truth's kind: judged like any target of that kind
    if kind in KINDS or kind == "twin":
        b, a = cur[kind], e["post"][kind]
        f.update(pre=b["st"] if b["st"] != "mod" else ("mod-" + ("absent" if b["d"] == "absent" else ("agree" if b["d"] == cur[trace["truth"]]["d"] else "stale"))),
                 post_st=a["st"], post_d=("agree" if a["d"] == cur[trace["truth"]]["d"] else a["d"]),
                 frame=bool(b["b"] or b["a"]), extra=any("extra:" in x for x in a["b"] + a["a"]),
                 changed=e["changed"][kind], report=e["report"][kind], printed=e["printed"][kind],
                 init_pre=_init_class(hist, kind), is_truth=(kind == trace["truth"]), moddoc=("s0" in b["b"]),
                 lookalike=any(x in b["b"] for x in ("s4", "s5", "s6", "C.m3")))
    f["spell"] = hist.get("spell", "plain")
    return f


def _init_class(hist, kind):
    s = hist["init"][kind]
    if s["st"] != "mod":
        return s["st"]
    return "mod-%s%s%s%s" % (s["d"], "" if s.get("canon", True) or s["d"] == "absent" else "-handwritten", "" if s.get("nl", True) is True else "-nonl",
                               "" if s.get("has_class", True) else "-noclass")


def run(prop, propose=False, replay=None):
    timer = Timer()
    thorough = tier() == "thorough"
    rnd = random.Random(seed() * 31 + int(prop[1:]))
    mcs = []
    if not replay:
        mcs.append(tlc.model_check("Sync.tla", "Sync_intended3.cfg" if thorough else "Sync_intended.cfg"))
        if thorough or prop == "C09":
            mcs.append(tlc.model_check("Sync.tla", "Sync_twin.cfg"))
    if replay:
        with open(replay) as f:
            hs = [json.load(f)["history"]]
    elif prop == "C20":
        hs = fault_histories(thorough, rnd)
    else:
        hs = histories(prop, thorough, rnd)
    import_doctrans()
    with Pool(NCPU) as pool:
        res = pool.map(run_history, hs, chunksize=4)
    traces, hist_by, conc_by = [], {}, {}
    for h, (tr, rp) in zip(hs, res):
        if "driver_exc" in tr:
            raise RuntimeError("sync driver failure: " + tr["driver_exc"])
        traces.append(tr)
        hist_by[tr["id"]] = h
        conc_by[tr["id"]] = rp
    fails, stats = tlc.validate_traces("SyncTrace.tla", "SyncTrace.cfg", traces)
    cli_part = None
    extra_viol = []
    if prop == "C20" and not replay:
        from . import cli_check

        cli_part = cli_check.run_matrix(thorough, rnd)
    matcher = F.Matcher(prop)
    violations, unmatched = [], []
    by_id = {t["id"]: t for t in traces}
    nrel = 0
    for tid, fs in fails.items():
        for (step, cl, kind) in fs:
            if cl not in CLAUSES_OF[prop]:
                continue
            nrel += 1
            feat = feat_of(by_id[tid], hist_by[tid], step, cl, kind)
            if matcher.match(feat) is None:
                if propose:
                    unmatched.append(feat)
                    continue
                path = R.write_replay(prop, "%s-%d-%s-%s" % (tid, step, cl, kind), {"property": prop, "clause": cl, "step": step, "kind": kind,
                                      "features": feat, "history": hist_by[tid], "trace": by_id[tid], "concrete": conc_by[tid]["concrete"]})
                violations.append((path, "%s %s step %d: %s" % (cl, kind, step, json.dumps({k: v for k, v in feat.items() if k not in ("comps",)}))))
    if cli_part:
        for feat, rec in cli_part["failures"]:
            nrel += 1
            if matcher.match(feat) is None:
                if propose:
                    unmatched.append(feat)
                    continue
                path = R.write_replay(prop, "cli-%s" % rec["id"], {"property": prop, "features": feat, "record": rec})
                violations.append((path, "CLI %s: %s" % (feat["cl"], json.dumps(rec["argv"]))))
    for r in mcs:
        if not r["ok"]:
            violations.append((R.write_replay(prop, "mc-" + r["cfg"], r), "TLC: %s violated in %s" % (r["violated"], r["cfg"])))
    if propose:
        from collections import Counter

        c = Counter(json.dumps({k: v for k, v in f.items() if k not in ("comps", "step")}, sort_keys=True) for f in unmatched)
        for k, n in c.most_common(100):
            print(n, k)
        print("unmatched", len(unmatched), "relevant failures", nrel, "failing traces", len(fails), "of", len(traces))
        return 0
    if replay:
        print(json.dumps({"fails": fails, "trace": traces[0]}, default=str)[:6000])
        return 1 if violations else 0
    cov = R.mc_summary(mcs)
    cov["states"] += stats["distinct"]
    cov["transitions"] += stats["states"]
    if cli_part:
        cov["states"] += cli_part["mc"]["distinct"] + cli_part["stats"]["distinct"]
        cov["transitions"] += cli_part["mc"]["states"] + cli_part["stats"]["states"]
        cov["cli_invocations"] = cli_part["n"]
        cov["mc_runs"].append({"module": "Cli.tla", "cfg": cli_part["mc"]["cfg"], "distinct": cli_part["mc"]["distinct"], "generated": cli_part["mc"]["states"],
                               "depth": cli_part["mc"]["depth"], "ok": cli_part["mc"]["ok"]})
    cov.update({"traces_validated_against_impl": len(traces) + (cli_part["n"] if cli_part else 0), "failing_traces": len(fails),
                "relevant_clause_failures": nrel, "known_findings_matched": len(matcher.hits), "stale_findings": matcher.stale(),
                "exhaustive": False,
                "rule": "history = (truth kind, kinds given, top-level/method target, abstract pre-state of every file, steps); "
                        "every file observed with ast after every step; clauses of SyncTrace.tla evaluated by TLC",
                "samples": [{"history": hist_by[t["id"]], "trace": t} for t in traces[:: max(1, len(traces) // 2)][:2]]})
    if prop == "C20":
        cov["fault_points"] = sorted({str(tuple(h["steps"][0][1:])) for h in hs})
    return R.finish(prop, "model_checking", cov, timer, violations[:200], matcher.report_lines(),
                    ["interface versions v1/v2 are two fixed well-behaved descriptions (conversion fidelity is C01-C05's business)",
                     "files are observed with Python's ast; surrounding statements are drawn from a fixed pool of 7 statements",
                     "faults are injected by rebinding doctrans.emit.open / the emitters from the harness process"])
