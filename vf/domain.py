"""gamma (tokens -> concrete values) and alpha (concrete values -> tokens).

A *table* fixes one concrete value per token.  TLC enumerates tokens; tables vary the concrete text inside
a token's class (hand-written T0/T1 + seeded random tables).  alpha is total: anything that is not the
image of a token under the table in use becomes "other" (never accepted by a clause); the concrete value
is kept in the replay file.
"""
import ast
import random
import re

NONE_STR = "```(None)```"   # doctrans.ast_utils.NoneStr on py>=3.9 (IR constant for None, N2)

PARAM_NAMES = ("p1", "p2", "p3", "p4", "kw")

TYP_T0 = {
    "str": "str", "int": "int", "float": "float", "bool": "bool",
    "OptStr": "Optional[str]", "OptInt": "Optional[int]", "OptBool": "Optional[bool]",
    "ListStr": "List[str]", "LitStr": "Literal['np', 'tf']", "LitInt": "Literal[5, 7]", "UnionIntStr": "Union[int, str]",
    "TupleIntStr": "Tuple[int, str]", "Dotted": "np.ndarray", "OptDict": "Optional[dict]",
}
OBS_ONLY_TYP = {"object": "object", "Any": "Any", "NoneType": "NoneType", "dict": "dict"}


def _t0():
    return {
        "id": "T0",
        "names": {"p1": "dataset_name", "p2": "tfds_dir", "p3": "batch_size", "p4": "as_numpy", "kw": "data_loader_kwargs"},
        "typ": dict(TYP_T0),
        "lit": ("np", "tf"),
        "litint": (5, 7),
        "def": {"int0": 0, "intPos": 5, "intNeg": -5, "float": 0.25, "boolT": True, "boolF": False,
                "strEmpty": "", "str": "mnist", "strNum": "5"},
        "code": {"ListStr": "['a', 'b']", "TupleIntStr": "(5, 'x')", "Dotted": "np.empty(0)", "none": "np.empty(0)",
                 "ret": "(np.empty(0), np.empty(0))", "ret_int": "len(argv)", "ret_Dotted": "np.empty(0)",
                 "ret_TupleIntStr": "(5, 'x')"},
        "prose": {"p1": "name of dataset", "p2": "directory to look for models in", "p3": "number of samples per batch",
                  "p4": "convert to numpy ndarrays", "kw": "pass this as arguments to data_loader function",
                  "ret": "train and tests dataset splits"},
        "summary": {"one": "Acquire from the official tensorflow_datasets model zoo",
                    "multi": "Acquire from the official tensorflow_datasets model zoo,\nor the ophthalmology focussed ml-prepare library"},
    }


def _t1():
    t = _t0()
    t["id"] = "T1"
    t["names"] = {"p1": "alpha", "p2": "n_jobs", "p3": "x", "p4": "use_cache", "kw": "fit_kwargs"}
    t["lit"] = ("left", "")                  # a falsy member in each Literal
    t["litint"] = (1000, 0)
    t["typ"]["LitStr"] = "Literal['left', '']"
    t["typ"]["LitInt"] = "Literal[1000, 0]"
    t["typ"]["Dotted"] = "tf.data.Dataset"
    t["def"] = {"int0": 0, "intPos": 1000, "intNeg": -1, "float": 1e-07, "boolT": True, "boolF": False,
                "strEmpty": "", "str": "left", "strNum": "True"}
    t["code"] = {"ListStr": "['left']", "TupleIntStr": "(0, '')", "Dotted": "tf.data.Dataset.range(2)", "none": "operator.add(1, 2)",
                 "ret": "stdout", "ret_int": "alpha + 1", "ret_Dotted": "tf.data.Dataset.range(2)", "ret_TupleIntStr": "(0, '')"}
    t["prose"] = {"p1": "learning rate, e.g. 0.5 (see the paper, section 2.1)", "p2": "how many jobs; `-1` means all",
                  "p3": "the input (a tensor) to use. Must be 2-D", "p4": "whether to cache by default or not",
                  "kw": "forwarded to `fit`, see docs", "ret": "the result; shape (n, 2)"}
    t["summary"] = {"one": "Fit the model.", "multi": "Fit the model.\n\nSecond paragraph, with details (and a parenthesis)."}
    return t


_WORDS = ("data", "model", "path", "value", "number", "input", "output", "size", "rate", "mode", "name", "list",
          "seed", "step", "epoch", "batch", "layer", "weight", "loss", "graph", "file", "cache", "index", "shape")
_IDS = ("lr", "momentum", "verbose", "log_dir", "n_estimators", "max_depth", "shuffle", "axis", "dtype", "epochs",
        "units", "rho", "beta_1", "patience", "gamma", "tol", "C", "k", "num_classes", "stride")


def random_table(seed):
    """Seeded random table: same classes, other concrete values."""
    r = random.Random(seed)
    t = _t0()
    t["id"] = "R%d" % seed
    ids = r.sample(_IDS, 4)
    if r.random() < 0.34:     # related names: suffix / prefix of a neighbour
        base = r.choice(("size", "dir", "rate", "name", "steps"))
        ids = [base, r.choice(("batch_", "data_", "min_", "n_")) + base, base + r.choice(("_max", "_decay", "s")), "use_" + base]
    t["names"] = {"p1": ids[0], "p2": ids[1], "p3": ids[2], "p4": ids[3], "kw": r.choice(("kwargs", "model_kwargs", "opt_kwargs"))}
    lit = tuple(r.sample(("sgd", "adam", "l1", "l2", "same", "valid", "r", "w"), 2))
    t["lit"] = lit
    t["typ"]["LitStr"] = "Literal[%r, %r]" % lit
    t["typ"]["Dotted"] = r.choice(("np.ndarray", "tf.Tensor", "torch.nn.Module", "pd.DataFrame"))
    t["def"] = {"int0": 0, "intPos": r.choice((1, 2, 3, 7, 10, 42, 128, 65536)), "intNeg": -r.choice((1, 2, 3, 10, 100)),
                "float": r.choice((0.5, 0.001, 2.5, 1e-3, 0.999, 3.14159, 1e-07, 10.0)), "boolT": True, "boolF": False,
                "strEmpty": "", "str": lit[0], "strNum": r.choice(("5", "True", "1e3", "0", "-1", "False", "0.5"))}
    t["litint"] = (t["def"]["intPos"], t["def"]["intPos"] + 1)
    t["typ"]["LitInt"] = "Literal[%d, %d]" % t["litint"]
    # the inner types of the composite classes vary too, as far as the class semantics allow: argparse falls back to the
    # *last* member of a Union / Tuple and to the element type of a List, so the classes are "... ending in str"
    t["typ"]["UnionIntStr"] = r.choice(("Union[int, str]", "Union[float, str]", "Union[int, float, str]"))
    tup = r.choice((("Tuple[int, str]", "(5, 'x')"), ("Tuple[float, str]", "(0.5, 'x')"), ("Tuple[int, int, str]", "(1, 2, 'x')")))
    t["typ"]["TupleIntStr"], t["code"]["TupleIntStr"], t["code"]["ret_TupleIntStr"] = tup[0], tup[1], tup[1]

    def sentence():
        n = r.randint(2, 9)
        ws = [r.choice(_WORDS) for _ in range(n)]
        s = " ".join(ws)
        if r.random() < 0.3:
            s += ", " + r.choice(_WORDS) + " " + r.choice(_WORDS)
        if r.random() < 0.2:
            s += " (%s)" % r.choice(_WORDS)
        if r.random() < 0.2:
            s += " `%s`" % r.choice(_WORDS)
        if r.random() < 0.15:
            s = s + ". " + r.choice(_WORDS).capitalize() + " " + r.choice(_WORDS)
        return s

    used = set()
    for k in ("p1", "p2", "p3", "p4", "kw", "ret"):
        s = sentence()
        while s in used:
            s = sentence()
        used.add(s)
        t["prose"][k] = s
    t["summary"] = {"one": sentence().capitalize() + ".", "multi": sentence().capitalize() + ".\n" + sentence().capitalize()}
    return t


def sweep_table(length):
    """T0 with every prose exactly `length` characters long: swept over consecutive lengths, the word-wrap boundary (fixed
    width) falls on every position of the `Defaults to <value>` sentence that follows the prose."""
    t = _t0()
    t["id"] = "S%d" % length
    for i, k in enumerate(("p1", "p2", "p3", "p4", "kw", "ret")):
        words, j = [("first", "second", "third", "fourth", "extra", "result")[i]], i
        while len(" ".join(words)) < length:
            # every other word is a hyphenated compound: over the swept lengths the wrap column falls on each of their hyphens
            w = _WORDS[j % len(_WORDS)]
            words.append(w if len(words) % 2 else w + "-" + _WORDS[(j + 7) % len(_WORDS)])
            j += 5
        text = " ".join(words)[:length]
        if text.endswith(" "):
            text = text[:-1] + "s"
        t["prose"][k] = text
    return t


def _tn():
    """T0 with *related* parameter names: each is a suffix or a prefix of a neighbour (rate / learning_rate / learning /
    rate_decay), the way real signatures have size / batch_size or dir / data_dir next to each other."""
    t = _t0()
    t["id"] = "TN"
    t["names"] = {"p1": "rate", "p2": "learning_rate", "p3": "learning", "p4": "rate_decay", "kw": "rate_kwargs"}
    # a summary of three short lines (each fits the line, together they do not)
    t["summary"] = dict(t["summary"], multi="Acquire the dataset from the official zoo of well-known models,\n"
                                            "or from the ophthalmology-focussed ml-prepare library,\nwhichever knows the name of it")
    # prose that starts with a word the parsers treat specially ("Optional ..." wraps the type in Optional[..]): used only for
    # slots whose type already is Optional[..], where the wrapper must stay exactly one (see realise / a_prose)
    # free-standing dashes (a spaced dash, a flattened bullet list, a range): a wrapped line may end in one
    t["prose"] = dict(t["prose"], p1="name of dataset - one of - mnist - cifar", p3="number of samples per batch - in the range 1 - 500", p2="directory of state-of-the-art pre-trained mixed-precision models",
                      ret="train and tests dataset splits - as a pair")
    # values that compare equal across types (1 == 1.0 == True, 0 == 0.0 == False) live side by side in this table
    t["def"] = dict(t["def"], intPos=1, float=1.0)
    t["litint"] = (1, 0)
    t["typ"]["LitInt"] = "Literal[1, 0]"
    t["prose_opt"] = {"p1": "Optional name prefix for the dataset", "p2": "(Optional) directory to look for models in",
                      "p3": "Optional number of samples per batch"}
    return t


def _tl():
    """T0 with *long* texts: every prose, the summary and the composite types are longer than the default line length, so
    word wrap is at work in every entry (C18: "shorter than, equal to and much longer than the width")."""
    t = _t0()
    t["id"] = "TL"
    t["long_summary"] = True
    t["prose"] = {
        "p1": "name of the dataset that is going to be downloaded from the official model zoo of the project and then cached locally for every later run",
        "p2": "directory in which the downloaded archives and the extracted models are looked for before anything is fetched over the network again",
        "p3": "number of samples that make up one batch when the training loop iterates over the shuffled and repeated input pipeline of the task",
        "p4": "whether the tensors that come out of the input pipeline are converted to plain numpy ndarrays before they are handed to the caller",
        "kw": "every additional keyword argument is passed on unchanged to the data loader function that was selected by the name of the dataset",
        "ret": "the pair of training and testing splits of the dataset in the order in which the underlying loader function produced the two of them",
    }
    t["lit"] = ("adam", "sgd", "rmsprop", "adagrad", "adadelta", "adamax", "nadam", "ftrl", "lion", "lamb", "lars", "yogi")
    t["typ"]["LitStr"] = "Literal[%s]" % ", ".join(repr(x) for x in t["lit"])
    t["def"] = dict(t["def"], str="adam")
    t["typ"]["UnionIntStr"] = "Union[int, float, complex, bytes, bytearray, memoryview, bool, frozenset, range, slice, type, str]"
    t["typ"]["Dotted"] = "tensorflow.python.keras.engine.training_utils_v1.ModelInputsAndOutputsWithAVeryLongDescriptiveClassName"
    t["code"] = dict(t["code"], Dotted="tensorflow.python.keras.engine.training_utils_v1.ModelInputsAndOutputsWithAVeryLongDescriptiveClassName()",
                     ret_Dotted="tensorflow.python.keras.engine.training_utils_v1.ModelInputsAndOutputsWithAVeryLongDescriptiveClassName()")
    t["summary"] = {"one": "Acquire the requested dataset from the official tensorflow_datasets model zoo or from the ophthalmology focussed ml prepare library",
                    "multi": "Acquire the requested dataset from the official tensorflow_datasets model zoo or from the ophthalmology focussed library,\n"
                             "whichever of the two knows the name, and hand back the training and the testing split together with their sizes"}
    return t


def kwargs_named_table():
    """T0 whose first parameter has a scalar-looking role but a name ending in `kwargs` (optimizer_kwargs: str): the name must not
    decide how an option is emitted (used for the argparse round trip, C04)."""
    t = _t0()
    t["id"] = "TK"
    t["names"] = dict(t["names"], p1="optimizer_kwargs", kw="data_loader_kwargs")
    return t


def tables(n_random=0, seed=0):
    ts = [_t0(), _t1(), _tn(), _tl()]
    for i in range(n_random):
        ts.append(random_table(seed * 1000 + i + 1))
    return ts


# ------------------------------------------------------------------------------------------------ gamma

def g_typ(table, tok):
    return None if tok == "none" else table["typ"].get(tok, OBS_ONLY_TYP.get(tok, tok))


def code_expr(table, typ_tok, is_ret=False):
    if is_ret:
        return table["code"].get("ret_" + typ_tok, table["code"]["ret"])
    return table["code"].get(typ_tok, table["code"]["none"])


def g_def(table, tok, typ_tok, is_ret=False):
    """Concrete default for a token (needs the slot's type for str/code classes). Returns (present, value)."""
    if tok == "absent":
        return False, None
    if tok == "none":
        return True, NONE_STR
    if tok == "float0":
        return True, 0.0
    if tok == "code":
        return True, "```%s```" % paren(code_expr(table, typ_tok, is_ret))
    if tok == "codeBare":
        return True, code_expr(table, typ_tok, is_ret)
    if tok == "str" and typ_tok == "LitStr":
        return True, table["lit"][0]
    return True, table["def"][tok]


def paren(code):
    return code if code[0] + code[-1] in ("()", "[]", "{}") else "(%s)" % code


OPT_TOKS = ("OptStr", "OptInt", "OptBool")


def g_prose(table, key, dbase, dstop, dann="no", deftext=None, typ_tok=None):
    if dbase != "own":
        return None
    s = table["prose"][key]
    if typ_tok in OPT_TOKS and key in table.get("prose_opt", {}):
        s = table["prose_opt"][key]
    if dstop:
        s += "."
    if dann == "same" and deftext is not None:
        s = (s if s.endswith(".") else s + ".") + " Defaults to " + deftext
    return s


def realise(table, air):
    """abstract IR -> concrete doctrans IR dict (fresh objects)."""
    from collections import OrderedDict

    params = OrderedDict()
    for s in air["params"]:
        d = {}
        t = g_typ(table, s["typ"])
        if t is not None:
            d["typ"] = t
        present, v = g_def(table, s["def"], s["typ"])
        if present:
            d["default"] = v
        p = g_prose(table, s["name"], s["dbase"], s["dstop"], s.get("dann", "no"), render_default(v) if present else None, typ_tok=s["typ"])
        if p is not None:
            d["doc"] = p
        params[table["names"][s["name"]]] = d
    ir = {"name": None, "type": "static", "doc": table["summary"][air["doc"]], "params": params, "returns": None}
    r = air["ret"]
    if r["present"]:
        d = {}
        t = g_typ(table, r["typ"])
        if t is not None:
            d["typ"] = t
        present, v = g_def(table, r["def"], r["typ"], is_ret=True)
        if present:
            d["default"] = v
        p = g_prose(table, "ret", r["dbase"], r["dstop"], r.get("dann", "no"), render_default(v) if present else None)
        if p is not None:
            d["doc"] = p
        ir["returns"] = OrderedDict((("return_type", d),))
    return ir


def render_default(v):
    return "None" if v == NONE_STR else str(v)


# ------------------------------------------------------------------------------------------------ alpha

def norm_ws(s):
    return " ".join(str(s).split())


def _norm_typ(t):
    try:
        return ast.unparse(ast.parse(t.strip(), mode="eval"))
    except Exception:
        return "".join(t.split())


def a_typ(table, t):
    if t is None:
        return "none"
    if not isinstance(t, str):
        return "other"
    n = _norm_typ(t)
    for tok, s in table["typ"].items():
        if _norm_typ(s) == n:
            return tok
    for tok, s in OBS_ONLY_TYP.items():
        if s == n:
            return tok
    if n.startswith("Optional[") and n.endswith("]"):
        inner = a_typ(table, n[len("Optional["):-1])
        if inner != "other" and not inner.startswith("Opt"):
            return {"int": "OptInt", "str": "OptStr", "bool": "OptBool"}.get(inner, "Opt:" + inner)
    return "other"


def _same_expr(a, b):
    try:
        return ast.dump(ast.parse(a.strip(), mode="eval")) == ast.dump(ast.parse(b.strip(), mode="eval"))
    except Exception:
        return False


def a_code(table, v, typ_toks, is_ret=False):
    """Classify a string that may be a code default: code / codeBare / codeQ / None."""
    if not isinstance(v, str):
        return None
    cands = set()
    for tt in typ_toks:
        cands.add(code_expr(table, tt, is_ret))
    if is_ret:
        cands.update(x for k, x in table["code"].items() if k.startswith("ret"))
    else:
        cands.update(x for k, x in table["code"].items() if not k.startswith("ret"))
    s = v.strip()
    quoted = False
    if len(s) > 2 and s[0] == s[-1] and s[0] in "'\"":
        s, quoted = s[1:-1], True
    ticks = s.startswith("```") and s.endswith("```") and len(s) > 6
    inner = s[3:-3] if ticks else s
    if not any(_same_expr(inner, c) for c in cands):
        return None
    if quoted:
        return "codeQ"
    return "code" if ticks else "codeBare"


def a_def(table, present, v, typ_toks=("none",), is_ret=False):
    """Classify a default value: the same value class *and* the same Python type."""
    if not present:
        return "absent"
    if v is None or (isinstance(v, str) and v in ("None", NONE_STR, "```None```")):
        return "none"
    if isinstance(v, ast.AST):
        try:
            src = ast.unparse(v)
        except Exception:
            return "other"
        if isinstance(v, ast.Constant):
            return a_def(table, True, v.value, typ_toks, is_ret)
        c = a_code(table, "```%s```" % src, typ_toks, is_ret)
        return c or "other"
    d = table["def"]
    if isinstance(v, bool):
        return "boolT" if v else "boolF"
    if isinstance(v, int):
        if v == 0:
            return "int0"
        if v == d["intPos"]:
            return "intPos"
        if v == d["intNeg"]:
            return "intNeg"
        return "other"
    if isinstance(v, float):
        if v == d["float"]:
            return "float"
        if v == 0.0:
            return "float0"
        return "other"
    if isinstance(v, str):
        if v == "":
            return "strEmpty"
        if v == d["str"] or v == table["lit"][0]:
            return "str"
        if v == d.get("strNum"):
            return "strNum"
        c = a_code(table, v, typ_toks, is_ret)
        return c or "other"
    return "other"


_ANN = re.compile(r"^(?P<stop>[.,])?\s*Defaults? to\s+(?P<val>.+?)\s*$", re.S)


def _renderings(table, deftok, typ_toks, is_ret):
    """Texts that announce default `deftok`."""
    outs = set()
    if deftok in ("absent", "other"):
        return outs
    if deftok == "none":
        return {"None", NONE_STR, "`None`", "(None)"}
    if deftok in ("code", "codeBare", "codeQ"):
        for tt in typ_toks:
            e = code_expr(table, tt, is_ret)
            for x in (e, paren(e)):
                outs.update({x, "```%s```" % x, "`%s`" % x, '"```%s```"' % x, "'```%s```'" % x, '"%s"' % x})
        return outs
    if deftok == "float0":
        v = 0.0
    elif deftok == "str":
        vs = {table["def"]["str"], table["lit"][0]}
        for v in vs:
            outs.update({v, '"%s"' % v, "'%s'" % v, "`%s`" % v, "`'%s'`" % v, '`"%s"`' % v})
        return outs
    else:
        v = table["def"][deftok]
    outs.update({str(v), repr(v), "`%s`" % (v,), '"%s"' % (v,), "'%s'" % (v,)})
    return outs


def a_prose(table, key, doc, deftok, typ_toks=("none",), is_ret=False):
    """-> (dbase, dstop, dann)."""
    if doc is None or (isinstance(doc, str) and not doc.strip()):
        return "none", False, "no"
    if not isinstance(doc, str):
        return "other", False, "no"
    s = norm_ws(doc)
    p0 = norm_ws(table["prose"][key])
    alt = table.get("prose_opt", {}).get(key)
    if alt is not None and s.startswith(norm_ws(alt)):
        p0 = norm_ws(alt)
    if not s.startswith(p0):
        return "other", False, "no"
    rest = s[len(p0):]
    if rest == "":
        return "own", False, "no"
    if rest == ".":
        return "own", True, "no"
    m = _ANN.match(rest)
    if not m:
        return "other", False, "no"
    val = m.group("val")
    rend = _renderings(table, deftok, typ_toks, is_ret)
    same = val in rend or (val.endswith(".") and val[:-1] in rend)
    return "own", m.group("stop") == ".", ("same" if same else "diff")


def a_summary(table, doc):
    """The summary token; `<tok>~` when the text agrees only modulo white space (lines re-flowed, paragraphs merged) - unless
    the table's summary lines are longer than the line anyway (TL), where wrapping has to change the layout."""
    import os

    s = norm_ws(doc or "")
    width = int(os.environ.get("DOCTRANS_LINE_LENGTH", 100))
    for tok, t in table["summary"].items():
        if (doc or "") == t:
            return tok
        if norm_ws(t) == s:
            # a line that does not fit the configured width (less the deepest docstring indentation) has to be wrapped
            must_wrap = table.get("long_summary") or any(len(x) + 12 > width for x in t.splitlines())
            return tok if must_wrap else tok + "~"
    return "other"


def abstract_ir(table, ir, hint=None):
    """concrete doctrans IR -> abstract IR.  `hint`: abstract IR whose slot types tell which code expression to expect."""
    rev = {v: k for k, v in table["names"].items()}
    hint_typ = {}
    if hint:
        for s in hint["params"]:
            hint_typ[s["name"]] = s["typ"]
    params = []
    for name, p in (ir.get("params") or {}).items():
        n = rev.get(name, "other:" + str(name))
        typ = a_typ(table, p.get("typ"))
        tts = tuple({typ, hint_typ.get(n, "none"), "none"})
        d = a_def(table, "default" in p, p.get("default"), tts)
        key = n if n in table["prose"] else "p1"
        db, ds, da = a_prose(table, key, p.get("doc"), d, tts) if n in table["prose"] else ("other" if p.get("doc") else "none", False, "no")
        params.append({"name": n, "typ": typ, "dbase": db, "dstop": ds, "dann": da, "def": d})
    rets = ir.get("returns") or {}
    r = rets.get("return_type") if hasattr(rets, "get") else None
    if r is None:
        ret = {"present": False, "typ": "none", "dbase": "none", "dstop": False, "dann": "no", "def": "absent"}
    else:
        typ = a_typ(table, r.get("typ"))
        tts = tuple({typ, (hint or {}).get("ret", {}).get("typ", "none")})
        d = a_def(table, "default" in r, r.get("default"), tts, is_ret=True)
        db, ds, da = a_prose(table, "ret", r.get("doc"), d, tts, is_ret=True)
        ret = {"present": True, "typ": typ, "dbase": db, "dstop": ds, "dann": da, "def": d}
    return {"doc": a_summary(table, ir.get("doc")), "params": params, "ret": ret}
