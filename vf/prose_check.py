"""C17: default values through prose.  Prose.tla enumerates the cases and states the laws; every case is realised with
concrete text and pushed through the real set_default_doc / extract_default; TLC validates the outcome (ProseTrace.tla)."""
import json
import os
import random
import traceback
from multiprocessing import Pool

from . import findings as F
from . import runner as R
from . import tlc
from .common import NCPU, Timer, import_doctrans, scratch, seed, tier

TABLES = [
    {"id": "P0",
     "prefix": {"none": "", "plain": "the number of epochs", "stop": "the number of epochs.", "comma": "the rate, in steps", "paren": "the rate (per step)",
                "decimal": "scaled by 0.5 per epoch", "backtick": "uses `np.float32` values", "dfltword": "the default backend for this",
                "twosent": "First part. Second part"},
     "value": {"intPos": ("25", 25), "intNeg": ("-5", -5), "int0": ("0", 0), "float": ("0.25", 0.25), "floatNeg": ("-0.5", -0.5), "exp": ("1e-07", 1e-07),
               "boolT": ("True", True), "boolF": ("False", False), "none": ("None", None), "bare": ("mnist", "mnist"), "quoted": ('"mnist"', "mnist"),
               "bracketed": ("[1, 2]", "[1, 2]"), "brackdot": ("[0.5, 1.5]", "[0.5, 1.5]"), "tuple": ("(np.empty(0), np.empty(0))", "(np.empty(0), np.empty(0))"),
               "call": ("np.empty(0)", "np.empty(0)"), "dotted": ("np.float32", "np.float32"), "code": ("```np.empty(0)```", "```np.empty(0)```")},
     "suffix": {"none": "", "stop": ".", "sentence": ". It is also used later"}},
    {"id": "P1",
     "prefix": {"none": "", "plain": "learning rate", "stop": "learning rate of the optimiser.", "comma": "width, height and depth", "paren": "the axis (0 or 1)",
                "decimal": "between 0.1 and 0.9 inclusive", "backtick": "a `tf.Tensor` or `None`", "dfltword": "falls back to the defaults of the backend",
                "twosent": "Used twice. Never None"},
     "value": {"intPos": ("1000", 1000), "intNeg": ("-1", -1), "int0": ("0", 0), "float": ("3.5", 3.5), "floatNeg": ("-2.25", -2.25), "exp": ("2e+10", 2e+10),
               "boolT": ("True", True), "boolF": ("False", False), "none": ("None", None), "bare": ("adam", "adam"), "quoted": ("'adam'", "adam"),
               "bracketed": ("['a', 'b']", "['a', 'b']"), "brackdot": ("{'lr': 0.1}", "{'lr': 0.1}"), "tuple": ("(1, 2)", "(1, 2)"),
               "call": ("tf.zeros(3)", "tf.zeros(3)"), "dotted": ("tf.float64", "tf.float64"), "code": ("```tf.zeros(3)```", "```tf.zeros(3)```")},
     "suffix": {"none": "", "stop": ".", "sentence": ". See the guide for details"}},
    # values that compare equal across Python types (1 == 1.0 == True), very short prose, prose with a dash and a colon
    {"id": "P2",
     "prefix": {"none": "", "plain": "K", "stop": "dim.", "comma": "rows, then columns", "paren": "size (in bytes)",
                "decimal": "about 1.0 per unit", "backtick": "see `Default` below", "dfltword": "the defaulted option - if any",
                "twosent": "Size: small. Kept"},
     "value": {"intPos": ("1", 1), "intNeg": ("-100", -100), "int0": ("0", 0), "float": ("1.0", 1.0), "floatNeg": ("-1.0", -1.0), "exp": ("1e3", 1000.0),
               "boolT": ("True", True), "boolF": ("False", False), "none": ("None", None), "bare": ("r", "r"), "quoted": ('"r"', "r"),      # a string of a single character
               "bracketed": ("[0]", "[0]"), "brackdot": ("[1.0]", "[1.0]"), "tuple": ("(0, 1)", "(0, 1)"),
               "call": ("os.getcwd()", "os.getcwd()"), "dotted": ("os.sep", "os.sep"), "code": ("```os.getcwd()```", "```os.getcwd()```")},
     "suffix": {"none": "", "stop": ".", "sentence": ". Optional"}},
]
TYPS = {"none": None, "int": "int", "float": "float", "str": "str", "bool": "bool", "OptInt": "Optional[int]", "ListStr": "List[str]"}


def norm(s):
    return " ".join(str(s).split())


def line_of(t, c):
    pre, (vtext, _), suf = t["prefix"][c["prefix"]], t["value"][c["value"]], t["suffix"][c["suffix"]]
    if c["phrase"] == "none":
        return pre
    if not pre:
        head = ""
    elif c["phrase"] == "defaults to":
        head = pre.rstrip(".") + ", "
    else:
        head = pre + (" " if pre.endswith(".") else ". ")
    return head + c["phrase"] + " " + vtext + suf


def accept_forms(vtext, pyval):
    forms = [pyval]
    if isinstance(pyval, str):
        s = vtext
        forms += [s, s.strip("`"), s.strip("'\""), "```%s```" % s.strip("`"), "(%s)" % s.strip("`") if not s.startswith("(") else s,
                  "```(%s)```" % s.strip("`")]
    return forms


def run_case(rec):
    import_doctrans()
    from doctrans.defaults_utils import extract_default, set_default_doc

    c, t = rec["case"], rec["table"]
    vtext, pyval = t["value"][c["value"]]
    typ = TYPS[c["typ"]]
    out = {"id": rec["id"], "case": c, "exc": "none", "obs": {"dflt": "absent", "pytype": "none", "prose": "other"}}
    try:
        if c["mode"] == "write":
            param = {"doc": t["prefix"][c["prefix"]], "default": (pyval if not (isinstance(pyval, str) and c["value"] in ("quoted",)) else pyval)}
            if typ:
                param["typ"] = typ
            if pyval is None:
                param["default"] = "```(None)```"
            line = set_default_doc(("name", dict(param)), emit_default_doc=True)[1]["doc"]
            prefix_text, suffix_text = t["prefix"][c["prefix"]], ""
        else:
            line = line_of(t, c)
            prefix_text, suffix_text = t["prefix"][c["prefix"]], t["suffix"][c["suffix"]]
            if c["phrase"] == "defaults to":
                prefix_text = prefix_text.rstrip(".")
        doc, default = extract_default(line, typ=typ, emit_default_doc=not c["remove"])
        out["line"], out["doc"], out["default"] = line, doc, repr(default)
        if default is None and c["value"] != "none":
            out["obs"]["dflt"] = "absent"
        elif c["value"] == "none" and (default is None or default in ("None", "```(None)```", "```None```")):
            # extract_default returns None both for "no default" and for the value None: the value None is announced by the text
            out["obs"]["dflt"], out["obs"]["pytype"] = "none", "NoneType"
        else:
            ok = any(type(default) is type(f) and default == f for f in accept_forms(vtext, pyval))
            out["obs"]["dflt"] = c["value"] if ok else "other"
            out["obs"]["pytype"] = type(default).__name__
            if not ok and type(default) is not type(pyval):
                out["obs"]["dflt"] = "other"
        nd = norm(doc)
        # the default sentence is `<announcement> <value>` plus the full stop that ends it; the surrounding prose is what
        # stood before the announcement and what follows that full stop
        idx = line.find(c["phrase"]) if c["phrase"] != "none" else len(line)
        before = line[:idx].rstrip()
        rest = suffix_text.lstrip(". ")
        cands = {norm(before + " " + rest), norm(before.rstrip(",") + " " + rest), norm(before.rstrip(".,") + ". " + rest),
                 norm(before.rstrip(".,") + " " + rest)}
        if nd == norm(line):
            out["obs"]["prose"] = "line"
        if nd in cands and (c["remove"] or nd != norm(line)):
            out["obs"]["prose"] = "prefix+suffix"
        if c["phrase"] == "none":
            out["obs"]["prose"] = "line" if doc == line else "other"
    except Exception as e:
        out["exc"] = type(e).__name__
        out["trace"] = traceback.format_exc(limit=4)
    return out


def run(prop="C17", propose=False, replay=None):
    timer = Timer()
    thorough = tier() == "thorough"
    rnd = random.Random(seed() + 17)
    mcs = [tlc.model_check("Prose.tla", "Prose.cfg", workers=4)]
    d = scratch("pro-")
    tlc.export("ProseExport.tla", "ProseExport.cfg", d)
    rows = tlc.read_ndjson(os.path.join(d, "prose.ndjson"))
    recs = []
    for ti, t in enumerate(TABLES if thorough else TABLES[:1] + TABLES[1:]):
        for r in rows:
            if not thorough and ti >= 1 and rnd.random() < 0.6:
                continue
            recs.append({"id": "p%d" % len(recs), "case": r["case"], "table": t})
    if replay:
        with open(replay) as f:
            rp = json.load(f)
        recs = [{"id": "p0", "case": rp["case"], "table": next(t for t in TABLES if t["id"] == rp["table"])}]
    with Pool(NCPU) as pool:
        res = pool.map(run_case, recs, chunksize=200)
    traces = [{k: r[k] for k in ("id", "case", "exc", "obs")} for r in res]
    fails, stats = tlc.validate_traces("ProseTrace.tla", "ProseTrace.cfg", traces, shards=8)
    matcher = F.Matcher(prop)
    violations, unmatched = [], []
    by = {r["id"]: r for r in res}
    tb = {r["id"]: r["table"]["id"] for r in recs}
    for tid, fs in fails.items():
        for (_, cl, _) in fs:
            r = by[tid]
            feat = dict(r["case"], k="prose", cl=cl, obs=[r["obs"]["dflt"], r["obs"]["pytype"], r["obs"]["prose"]], exc=r["exc"], comps=[])
            if matcher.match(feat) is None:
                if propose:
                    unmatched.append(feat)
                    continue
                path = R.write_replay(prop, "%s-%s" % (tid, cl), {"property": prop, "clause": cl, "case": r["case"], "table": tb[tid], "record": r})
                violations.append((path, "%s: line=%r -> doc=%r default=%s" % (cl, r.get("line"), r.get("doc"), r.get("default"))))
    for r in mcs:
        if not r["ok"]:
            violations.append((R.write_replay(prop, "mc-" + r["cfg"], r), "TLC: %s violated in %s" % (r["violated"], r["cfg"])))
    if propose:
        from collections import Counter

        c = Counter(json.dumps({k: f[k] for k in ("cl", "mode", "value", "typ", "obs", "exc")}, sort_keys=True) for f in unmatched)
        for k, n in c.most_common(120):
            print(n, k)
        c2 = Counter(json.dumps({k: f[k] for k in ("cl", "prefix", "phrase", "suffix", "remove")}, sort_keys=True) for f in unmatched if f["cl"] in ("ProseBack", "Untouched"))
        for k, n in c2.most_common(60):
            print(n, k)
        print("unmatched", len(unmatched), "failing traces", len(fails), "of", len(traces))
        return 0
    if replay:
        print(json.dumps({"fails": fails, "record": res[0]}, default=str)[:3000])
        return 1 if violations else 0
    cov = R.mc_summary(mcs)
    cov["states"] += stats["distinct"]
    cov["transitions"] += stats["states"]
    cov.update({"traces_validated_against_impl": len(traces), "cases_enumerated_by_tlc": len(rows), "failing_traces": len(fails),
                "known_findings_matched": len(matcher.hits), "stale_findings": matcher.stale(), "exhaustive": thorough,
                "rule": "every well-formed case of Prose.tla (mode x prefix class x announcement x value class x suffix x declared type x removal) "
                        "x concretisation tables; one real set_default_doc / extract_default call per case",
                "samples": [{k: v for k, v in r.items() if k != "trace"} for r in res[:: max(1, len(res) // 3)][:3]]})
    return R.finish(prop, "model_checking", cov, timer, violations[:200], matcher.report_lines(),
                    ["the specification's contribution is the enumerated case analysis and the laws; the evidence is one real call per case (DESIGN 5.5)",
                     "prose compared modulo runs of whitespace; a quoted / back-ticked string may come back with or without its quotes"])
