"""Generic check runner: model-check, run scenarios, validate traces with TLC, match known findings, write evidence."""
import json
import os
import sys

from . import findings as F
from . import tlc
from .common import EVIDENCE, REPLAY, Timer, dump_json, seed, tier


class Outcome:
    def __init__(self, prop):
        self.prop = prop
        self.violations = []      # (replay_path, text)
        self.known = []
        self.notes = []


_cleaned = set()


def write_replay(prop, rid, obj):
    d = os.path.join(REPLAY, prop)
    if prop not in _cleaned:
        # replay files of earlier runs (other trees, other seeds) would only mislead: a run leaves exactly its own
        _cleaned.add(prop)
        if os.path.isdir(d) and not os.environ.get("VERIF_KEEP_REPLAYS"):
            for fn in os.listdir(d):
                if fn.endswith(".json"):
                    try:
                        os.unlink(os.path.join(d, fn))
                    except OSError:
                        pass
    os.makedirs(d, exist_ok=True)
    p = os.path.join(d, "%s.json" % rid)
    dump_json(p, obj)
    return p


def finish(prop, level, coverage, timer, violations, known_lines, assumptions, notes=None, mc_failures=()):
    """Print lines, write evidence, return exit code."""
    for line in known_lines:
        print(line)
    for path, text in violations:
        print("VIOLATION property=%s replay=%s" % (prop, path))
        if text:
            print("  " + text)
    ev = {
        "property_id": prop,
        "tier": tier(),
        "seed": seed(),
        "level": level,
        "coverage": coverage,
        "assumptions": assumptions,
        "wall_s": timer.s(),
        "violations": len(violations),
    }
    if notes:
        ev["notes"] = notes
    dump_json(os.path.join(EVIDENCE, "%s.json" % prop), ev)
    print("%s: %s violations=%d known_findings=%d wall=%.1fs" % (prop, "FAIL" if violations else "ok", len(violations), len(known_lines), timer.s()))
    return 1 if violations else 0


def mc_summary(results):
    return {
        "states": sum(r["distinct"] for r in results),
        "transitions": sum(r["states"] for r in results),
        "mc_runs": [{"module": r["module"], "cfg": r["cfg"], "distinct": r["distinct"], "generated": r["states"], "depth": r["depth"],
                     "ok": r["ok"]} for r in results],
    }
