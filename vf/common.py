"""Shared plumbing: paths, environment shim, scratch directories, seeds."""
import atexit
import json
import os
import shutil
import sys
import tempfile
import time

VERIF = os.path.dirname(os.path.dirname(os.path.abspath(__file__)))
SPEC = os.path.join(VERIF, "spec")
REPO = os.environ.get("VERIF_REPO", "/repo")
PY = "/venv/bin/python"
EVIDENCE = os.path.join(VERIF, "evidence")
REPLAY = os.path.join(VERIF, "replay")
SHIM = os.path.join(VERIF, "vf", "shim")
NCPU = max(1, min(16, os.cpu_count() or 1))
GUARD = "DOCTRANS_VERIF"


def seed():
    try:
        return int(os.environ.get("VERIF_SEED", "0"))
    except ValueError:
        return 0


def tier(default="quick"):
    t = os.environ.get("VERIF_TIER", default)
    return t if t in ("quick", "thorough") else default


_scratch = []


def scratch(prefix="vf-"):
    """A scratch directory removed at exit (never under /repo or /verif)."""
    d = tempfile.mkdtemp(prefix=prefix)
    _scratch.append(d)
    return d


@atexit.register
def _cleanup():
    if os.environ.get("VERIF_KEEP"):
        return
    for d in _scratch:
        shutil.rmtree(d, ignore_errors=True)


def child_env(**extra):
    """Environment for subprocesses that import doctrans from REPO's working tree."""
    env = dict(os.environ)
    env["PYTHONPATH"] = os.pathsep.join([SHIM, REPO, VERIF] + [p for p in env.get("PYTHONPATH", "").split(os.pathsep) if p])
    env.setdefault("PYTHONHASHSEED", "0")
    env["PYTHONDONTWRITEBYTECODE"] = "1"
    env[GUARD] = "1"
    env.update({k: str(v) for k, v in extra.items()})
    return env


def import_doctrans():
    """Make `import doctrans` work in this process (meta import shim, warnings off)."""
    import warnings

    warnings.simplefilter("ignore")
    if REPO not in sys.path:
        sys.path.insert(0, REPO)
    try:
        import meta  # noqa: F401  first import fails on py3.12, the second works
    except Exception:
        pass
    try:
        import meta  # noqa: F401
    except Exception:
        pass


class Timer:
    def __init__(self):
        self.t0 = time.time()

    def s(self):
        return round(time.time() - self.t0, 2)


def dump_json(path, obj):
    os.makedirs(os.path.dirname(path), exist_ok=True)
    tmp = path + ".tmp"
    with open(tmp, "w") as f:
        json.dump(obj, f, indent=1, sort_keys=True, default=str)
        f.write("\n")
    os.replace(tmp, path)
