#!/usr/bin/env python3
"""Run the repository's pinned test suite (guard off) and compare with /root/.vp/BASELINE.json."""
import json, os, subprocess, sys, tempfile
import xml.etree.ElementTree as ET

repo = sys.argv[1] if len(sys.argv) > 1 else "/repo"
base = json.load(open("/root/.vp/BASELINE.json"))
fd, xml = tempfile.mkstemp(suffix=".xml"); os.close(fd)
env = dict(os.environ); env.pop("DOCTRANS_VERIF", None)
subprocess.run(["/venv/bin/python", "-m", "pytest", "-ra", "-q", "-p", "no:cacheprovider", "--timeout=900",
                "--continue-on-collection-errors", "--junitxml=" + xml], cwd=repo, env=env,
               stdout=subprocess.DEVNULL, stderr=subprocess.DEVNULL)
passed = set()
for tc in ET.parse(xml).getroot().iter("testcase"):
    if not any(c.tag in ("failure", "error", "skipped") for c in tc):
        passed.add("%s::%s" % (tc.get("classname"), tc.get("name")))
os.unlink(xml)
missing = [t for t in base["stable_pass"] if t not in passed]
print("baseline: %d/%d stable tests pass" % (len(base["stable_pass"]) - len(missing), len(base["stable_pass"])))
for m in missing: print("  MISSING", m)
sys.exit(1 if missing else 0)
