#!/usr/bin/env python3
"""Writes /verif/MANIFEST.json from the table below (kept in one place so that it always validates)."""
import json, os
HERE = os.path.dirname(os.path.dirname(os.path.abspath(__file__)))
BASE = "cd /repo && /venv/bin/python -m pytest -ra -q -p no:cacheprovider --timeout=900 --continue-on-collection-errors"
CHECKS = {}
NA = {}

def add(pid, text, note, technique, design):
    CHECKS[pid] = {
        "property_id": pid,
        "quick_cmd": "./check %s --tier quick" % pid,
        "thorough_cmd": "./check %s --tier thorough" % pid,
        "evidence_file": "/verif/evidence/%s.json" % pid,
        "replay_cmd_template": "./check %s --replay {path}" % pid,
        "engine": "tlc-trace",
        "level_claimed": {"category": "model_checking", "text": text, "design_ref": design},
        "level_note": note,
        "technique": technique,
    }

CONV_NOTE = ("Trusted: TLC, the concretisation tables (finite sample of each token class), alpha (vf/domain.py, vf/pyview.py). "
             "Bounds: <=4 parameters + **kwargs + return, chains <=3 hops. Known findings (known_findings.json) mask regressions inside their region.")
CONV_TECH = "TLA+ spec (ConvertRel/Convert.tla) model-checked with TLC; real emit/parse executions recorded as NDJSON traces and validated clause by clause by TLC (ConvertTrace.tla)"
add("C01", "TLC checks the hop relation of Convert.tla (ChainRefines, Tight, FixedPointConsistent, StyleSound) exhaustively over the single/pair "
    "slot domains; every rest/numpydoc/google emit+parse of the real code over TLC-exported descriptions x tables is validated by TLC "
    "against the named clauses (NeverRaises, NamePresent, NamesOrder, TypKept, DefaultKept/Fill, ProseKept.*, RetKept.*, SummaryKept, StyleDetected).",
    CONV_NOTE, CONV_TECH, "DESIGN.md 5.1, 8 C01")

def main():
    props = [json.loads(l)["id"] for l in open(os.path.join(HERE, "properties.jsonl"))]
    m = {
        "version": 1,
        "setup_cmd": "true",
        "hooks": {"guard": "DOCTRANS_VERIF", "enable": "no source hooks are needed; checks set DOCTRANS_VERIF=1 for uniformity",
                  "baseline_off_cmd": BASE, "source_commits": [], "add_only": True},
        "engines": [{"name": "tlc-trace", "path": "/verif/check", "serves_properties": sorted(CHECKS),
                     "kind_free_text": "TLA+ specifications in /verif/spec model-checked by TLC, bound to the code by trace validation (vf/*.py drivers)"}],
        "checks": [CHECKS[p] for p in props if p in CHECKS],
        "not_applicable": [{"property_id": p, "reason": NA.get(p, "check not built yet in this round; will be decided with the TLA+ specification described in DESIGN.md section 8")}
                           for p in props if p not in CHECKS],
        "notes": "All checks are ./check <id>; exit 0 ok, 1 VIOLATION, 2 machinery failure. Known findings: /verif/known_findings.json.",
    }
    json.dump(m, open(os.path.join(HERE, "MANIFEST.json"), "w"), indent=1)
    print("checks:", sorted(CHECKS), "n/a:", [x["property_id"] for x in m["not_applicable"]])

if __name__ == "__main__":
    main()
