#!/usr/bin/env python3
"""Writes /verif/MANIFEST.json from the table below (kept in one place so that it always validates)."""
import json, os
HERE = os.path.dirname(os.path.dirname(os.path.abspath(__file__)))
BASE = "cd /repo && /venv/bin/python -m pytest -ra -q -p no:cacheprovider --timeout=900 --continue-on-collection-errors"
CHECKS = {}
NA = {}

def add(pid, text, note, technique, design):
    CHECKS[pid] = {
        "property_id": pid,
        "quick_cmd": "./check %s --tier quick" % pid,
        "thorough_cmd": "./check %s --tier thorough" % pid,
        "evidence_file": "/verif/evidence/%s.json" % pid,
        "replay_cmd_template": "./check %s --replay {path}" % pid,
        "engine": "tlc-trace",
        "level_claimed": {"category": "model_checking", "text": text, "design_ref": design},
        "level_note": note,
        "technique": technique,
    }

CONV_NOTE = ("Trusted: TLC, the concretisation tables (finite sample of each token class), alpha (vf/domain.py, vf/pyview.py). "
             "Tables: T0, T1 (falsy Literal members), TN (related names, dashes, Optional-prefixed prose, 1 / 1.0 / True side by side), TL (every text longer than "
             "the line), S<n> (prose of exactly n characters, swept), seeded random tables. Bounds: <=4 parameters + **kwargs + return, chains <=3 hops. "
             "Known findings (known_findings.json) mask regressions inside their region; chain failures are matched by exact sub-clause and outcome.")
CONV_TECH = "TLA+ spec (ConvertRel/Convert.tla) model-checked with TLC; real emit/parse executions recorded as NDJSON traces and validated clause by clause by TLC (ConvertTrace.tla)"
add("C01", "TLC checks the hop relation of Convert.tla (ChainRefines, Tight, FixedPointConsistent, StyleSound) exhaustively over the single/pair "
    "slot domains; every rest/numpydoc/google emit+parse of the real code over TLC-exported descriptions x tables is validated by TLC "
    "against the named clauses (NeverRaises, NamePresent, NamesOrder, TypKept, DefaultKept/Fill, ProseKept.*, RetKept.*, SummaryKept, StyleDetected).",
    CONV_NOTE, CONV_TECH, "DESIGN.md 5.1, 8 C01")

add("C02", "Same machinery for emit.class_ -> source text -> parse.class_: TLC validates every recorded round trip against the clauses "
    "with FillDef(class) = {zero of the (filled) type, None} as the only tolerated change and the return entry carried as `return_type`.",
    CONV_NOTE, CONV_TECH, "DESIGN.md 5.1, 8 C02")
add("C03", "emit.function -> text -> parse.function for static / self / cls x inline types x keyword-only x indent 0..2; clauses as C01 plus "
    "FuncKindKept, kwargs slot, RetKept (type, prose, returned expression).", CONV_NOTE, CONV_TECH, "DESIGN.md 5.1, 8 C03")
add("C04", "emit.argparse_function -> text -> parse.argparse_ast over the argparse-expressible domain (plus inexpressible types for the "
    "documented str fall-back); clauses with N8 (Optional <-> not required) and zero-value fill.", CONV_NOTE, CONV_TECH, "DESIGN.md 5.1, 8 C04")
add("C05", "TLC proves ChainRefines for every hop sequence (<=3) over the single-slot domain and length 1-2 over pair/triple domains; real "
    "chains (all 42 ordered pairs and 210 triples, sampled per description) are validated by TLC with the same ChainRefines operators "
    "(Chain.* clauses) against the *original* description.", CONV_NOTE, CONV_TECH, "DESIGN.md 5.1, 8 C05")
add("C06", "Every emitted class / function / method / argparse function is compiled, unparsed+reparsed, written with emit.file (black on/off), "
    "executed, and observed through Python itself (__annotations__/__dict__, inspect.signature, a real ArgumentParser); TLC checks the "
    "observation against the denotation operators C_*/F_*/O_* of ConvertRel.tla (Denotes.* clauses).", CONV_NOTE,
    CONV_TECH + "; alpha for artefacts is Python's own introspection (vf/pyview.py), not doctrans' parsers", "DESIGN.md 5.1, 8 C06")
add("C08", "Three passes emit;parse per kind and option record; TLC checks TextStable (digest of emission 3 = emission 2) and IrStable "
    "(parse 3 = parse 2); FixedPointConsistent is model-checked on the spec (the stutter demanded is compatible with the hop relation).",
    CONV_NOTE, CONV_TECH, "DESIGN.md 5.1, 8 C08")
add("C18", "One interpreter per DOCTRANS_LINE_LENGTH (unset, 40..200); in each, every kind is emitted unwrapped and wrapped and both are parsed; "
    "TLC checks the per-hop clauses and ConfigTransparent (the two parsed descriptions are equal, prose modulo whitespace).  A second sweep runs "
    "one interpreter per *consecutive* width (44..103 quick, 36..131 thorough) on a small description set, so that the line boundary falls on every "
    "position of every entry.",
    CONV_NOTE, CONV_TECH, "DESIGN.md 5.1, 8 C18")


add("C15", "Locate.tla: TLC checks that the declarative Resolve is a partial function and that the iterative Descend algorithm equals it on "
    "every module of the level-set domain (tiny exhaustive; small/medium in thorough). Every (module, path) of the TLC-exported domain is "
    "rendered to source and resolved by the real find_in_ast and RewriteAtQuery; TLC validates the returned node address and the set of "
    "changed nodes against Resolve (FindExact, ReplaceExact, ReplacedFlag, *NeverRaises).",
    "Trusted: TLC, the renderer and the independent address walk over ast (vf/locate_check.py). Bounds: nesting <= 3, names a/m/A/B and the look-alikes am/BA, "
    "curated level sets (Locate.tla).", "TLA+ spec (Locate.tla, PlusCal-style Descend vs declarative Resolve) model-checked with TLC; "
    "real lookups/replacements validated by TLC (LocateTrace.tla)", "DESIGN.md 5.6, 8 C15")


SYNC_NOTE = ("Trusted: TLC, the project builder / ast-based observer in vf/sync_check.py (never doctrans), two fixed well-behaved interface "
             "versions v1/v2 (v2 with a return entry). Bounds: one file per kind plus an optional second file of the truth's kind, <= 5 surrounding statements, "
             "histories of <= 5 steps, one fault per invocation. Files are named plainly, through a symbolic link or relatively; CLI runs use distinct hash seeds.")
SYNC_TECH = "TLA+ spec (Sync.tla: Begin/Decide/Tmp/Rename/Open/Write/End/Fault/EditTruth/SwitchTruth; switches Atomic, SkipTruth, BySpelling, Twin, SkipKind) model-checked with TLC for the intended design; real sync histories recorded and validated clause by clause by TLC (SyncTrace.tla)"
add("C09", "TLC proves Agreement at End for every pre-state combination of Sync.tla (7-10M states; Sync_twin.cfg with a second file of the truth's kind). Real histories: truth kind x kinds given (2 or 3) x "
    "top-level / method / nested-class / three-deep class (with a top-level namesake) target x every target pre-state (missing, empty, definition absent, stale, agreeing canonical / hand-written, no trailing "
    "newline, class missing), via ground_truth and via `python -m doctrans sync`; after the run every target is read with ast and must carry the "
    "truth's interface version.", SYNC_NOTE, SYNC_TECH, "DESIGN.md 5.7, 8 C09")
add("C10", "TLC proves Idempotent (action property), TruthUntouched, ReportTruthful, Untouched on Sync.tla. Real histories of 2-5 steps (sync, sync; "
    "sync, sync, edit truth, sync, sync; sync, sync, another file becomes the truth, sync, sync; CLI runs in separate interpreters with distinct hash seeds) are validated: bytes of every file between runs, returned report and printed lines.",
    SYNC_NOTE, SYNC_TECH, "DESIGN.md 5.7, 8 C10")
add("C11", "TLC proves FrameKept on Sync.tla; real histories over targets surrounded by imports, helper functions sharing parameter names, classes "
    "with same-named methods, sibling class members, look-alike names before the definition, neighbours with positional-only / *args / keyword-only / **kwargs parameters, an async def, a re-binding of the name after its definition, a module docstring, with and without trailing newline / trailing blanks: every other statement must keep its ast.dump and order, "
    "and the file must parse.", SYNC_NOTE, SYNC_TECH, "DESIGN.md 5.7, 8 C11")
add("C20", "TLC proves OldOrNew for the write-to-sibling-then-rename design with a Fault action enabled between any two steps (and refutes it for "
    "open-truncate-then-write); faults are injected into real sync runs at every write (before open, after open, mid-write of the 1st/2nd file) and "
    "at the 1st-3rd emitter call; every file must afterwards be byte-identical or completely rewritten and parseable. Cli.tla: every invocation "
    "shape of the three sub-commands (892: gen output named plainly or with an unexpanded ~) is run as a real subprocess; outcome class, exit status and a byte-level directory snapshot are "
    "validated by TLC (CliTrace.tla).", SYNC_NOTE + " sync_properties / gen fault points are not injected (single write at the end).",
    SYNC_TECH + "; Cli.tla accept/reject relation + CliTrace.tla", "DESIGN.md 5.7, 5.8, 8 C20")


add("C07", "Merge.tla: TLC explores every schedule of the docstring/signature merge (pad, take, append in any order, reorder) for every "
    "signature x docstring subset/order and proves NoDropNoDup, SigDefaults, SourceOrder, Deterministic for the intended design (and refutes "
    "them for the set-iteration / front-padding designs). Generated definitions (function, method, class+__init__; positional / keyword-only / "
    "**kwargs; annotated or not; 3 docstring styles; partial, out-of-order documentation) are executed and read with inspect, parsed by "
    "doctrans under several PYTHONHASHSEEDs, and TLC validates the result against Python's view (MergeTrace.tla).",
    "Trusted: TLC, the generator and the inspect-based observer (vf/merge_check.py). Bounds: 3 parameters + **kwargs, <= 2 class attributes, __init__ with or without a docstring; "
    "positional-only and *args excluded (outside the stated subset).",
    "TLA+ spec (Merge.tla, algorithm as steps with the set iteration as a schedule) model-checked with TLC; real parses validated by TLC (MergeTrace.tla)",
    "DESIGN.md 5.3, 8 C07")
add("C12", "Process.tla: outputs must be a function of (operation, input) whatever the hidden state of the calling process; TLC proves the memo "
    "discipline (Functional) and, on Merge.tla, that the merge result does not depend on the schedule. Real experiment: one interpreter per "
    "PYTHONHASHSEED (0..N and random) x 3 call orders x 2 rounds, each parsing every generated definition and emitting all six kinds from it; "
    "the merged (process, sequence) history is validated by TLC against the memo (ProcessTrace.tla).",
    "Trusted: TLC, digests of canonical serialisations (D18). Bounds: the generated definitions of C07 plus one or two documented names that are not parameters (Merge_extras.cfg), "
    "a section after the parameters, defaults 0 / 1 / 0.0 / 1.0 / True / False announced in the prose; gen is covered by C19.",
    "TLA+ spec (Process.tla memo + Merge.tla schedule exploration) model-checked with TLC; multi-process call logs validated by TLC (ProcessTrace.tla)",
    "DESIGN.md 5.8, 8 C12")
add("C13", "Sharing.tla: TLC explores every sequence of emitter / parser calls on one shared object (state space = reachable taint sets) and proves "
    "NonInterference / ObsEquiv when every call works on a copy, and refutes it with a two-call counterexample for in-place write sets. Real "
    "sequences: all sequences with repetition up to length 3 (all of length 4, and of length 5 on two descriptions, in thorough) over 7 emitters on one shared IR x 4 IRs, and all "
    "sequences up to 4 (6 in thorough) of parse calls (function, class, argparse function) on one shared AST (documented, docstring-less, with a classmethod); each call's output is compared with the same call on a fresh deep copy and the shared "
    "object's taints are validated by TLC (SharingTrace.tla).",
    "Trusted: TLC, the taint observer (vf/sharing_check.py). Outputs compared as text / canonical IR serialisation.",
    "TLA+ spec (Sharing.tla write-set / read-set model) model-checked with TLC; real call sequences validated by TLC (SharingTrace.tla)",
    "DESIGN.md 5.2, 8 C13")


add("C17", "Prose.tla enumerates every case (write/read x 9 prefix classes x 4 announcement phrases + none x 17 value classes x 3 suffixes x declared "
    "type x removal on/off; 6,962 well-formed cases) and states ValueBack / TypeBack / ProseBack / Untouched as a total expected outcome; TLC checks "
    "the laws are well defined and exports the cases; each is realised with concrete text (3 tables) and run through the real set_default_doc / "
    "extract_default; TLC validates the observed outcome (ProseTrace.tla).",
    "Trusted: TLC, the concretisation tables and outcome classifier (vf/prose_check.py). The state space is small: the specification contributes the "
    "case analysis and the laws, the weight of evidence is one real call per case (DESIGN 5.5).",
    "TLA+ spec (Prose.tla case analysis + laws) checked and enumerated by TLC; one real call per TLC-exported case validated by TLC (ProseTrace.tla)",
    "DESIGN.md 5.5, 8 C17")


add("C16", "Body.tla: TLC enumerates every body up to 4 (thorough: 5) statements over the statement tokens and checks Verbatim / ReturnOnce / HeldIntact for the structural "
    "design, and refutes them for the transcribed positional special cases (leading string expression, argument_parser assignment, trailing return). "
    "Every body (all up to length 2, a sample / all of length 3-4) is rendered to real statements, pushed through parse + emit to the same kind and "
    "name, through emit.class_(emit_call=True), and again after a class / argparse function was made from the same description (HeldIntact); TLC validates the observed token sequence and the set of rewritten name labels (BodyTrace.tla).",
    "Trusted: TLC, the statement templates and the classifier (vf/body_check.py). Bounds: bodies <= 4 (thorough 5) statements over 12 templates (annotated assignments included), 2 parameters.",
    "TLA+ spec (Body.tla token-sequence model) model-checked with TLC; real parse+emit runs validated by TLC (BodyTrace.tla)", "DESIGN.md 5.4, 8 C16")


add("C14", "SyncProps.tla: TLC checks OnlyAddressedChanged, AllPairsApplied (last writer wins) and UnresolvedIsError over all input/output property "
    "maps, 1-2 pairs, wrap on/off, resolvable or not. Real calls: every (input location, output location) pair of two generated modules covering "
    "module-level (annotated) assignments, class attributes, function / method arguments, positional and keyword-only, same-named parameters in other "
    "definitions, arguments without defaults left of arguments with defaults; wrap on/off; eval mode on every output location; random 2-3 pair calls (120 quick, 4000 thorough); unresolved addresses including ones with an empty component. The input file's bytes, the output's "
    "ast (every node by name / annotation / default) are observed and validated by TLC (SyncPropsTrace.tla).",
    "Trusted: TLC, the ast observer (vf/syncprops_check.py). Two fixed modules; the addressed node's own default is not judged; wrapping a property "
    "without annotation slot is declared unsupported by the code (NotImplementedError) and is outside the domain.",
    "TLA+ spec (SyncProps.tla) model-checked with TLC; real sync_properties calls validated by TLC (SyncPropsTrace.tla)", "DESIGN.md 5.8, 8 C14")
add("C19", "Gen.tla: TLC enumerates all 12,240 configurations (mapping of 1-3 distinct entries among 5, type, name template, prepend, 0-2 import lines, output "
    "exists, mapping keys equal to or different from the objects' names) with the expected item sequence, checks OnePerEntryInOrder / Layout / ExistingKept and the action property RefusesExisting. Each "
    "configuration (a sample in quick, all in thorough) is run as a real `python -m doctrans gen` subprocess on a generated input module, followed by "
    "a second invocation; the output module is read with ast (items, names, __all__, parameter names and defaults of every definition, node kinds) and validated "
    "by TLC (GenTrace.tla).",
    "Trusted: TLC, the ast observer (vf/gen_check.py). Entries are drawn from five fixed definitions (3 classes with __init__, two of them twins sharing their docstrings, 2 functions).",
    "TLA+ spec (Gen.tla) model-checked with TLC; real gen runs validated by TLC (GenTrace.tla)", "DESIGN.md 5.8, 8 C19")


def main():
    props = [json.loads(l)["id"] for l in open(os.path.join(HERE, "properties.jsonl"))]
    m = {
        "version": 1,
        "setup_cmd": "true",
        "hooks": {"guard": "DOCTRANS_VERIF", "enable": "no source hooks are needed; checks set DOCTRANS_VERIF=1 for uniformity",
                  "baseline_off_cmd": BASE, "source_commits": [], "add_only": True},
        "engines": [{"name": "tlc-trace", "path": "/verif/check", "serves_properties": sorted(CHECKS),
                     "kind_free_text": "TLA+ specifications in /verif/spec model-checked by TLC, bound to the code by trace validation (vf/*.py drivers)"}],
        "checks": [CHECKS[p] for p in props if p in CHECKS],
        "not_applicable": [{"property_id": p, "reason": NA.get(p, "check not built yet in this round; will be decided with the TLA+ specification described in DESIGN.md section 8")}
                           for p in props if p not in CHECKS],
        "notes": "All checks are ./check <id>; exit 0 ok, 1 VIOLATION, 2 machinery failure. Known findings: /verif/known_findings.json.",
    }
    json.dump(m, open(os.path.join(HERE, "MANIFEST.json"), "w"), indent=1)
    print("checks:", sorted(CHECKS), "n/a:", [x["property_id"] for x in m["not_applicable"]])

if __name__ == "__main__":
    main()
