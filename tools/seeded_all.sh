#!/bin/bash
# usage: tools/seeded_all.sh [ids...]   -- every seeded change against the check of its own property; prints one line each
# (applies each patch to /repo, runs the check, reverts; /repo must be clean)
cd /verif || exit 2
ids=("$@"); [ ${#ids[@]} -eq 0 ] && ids=($(ls seeded))
for d in "${ids[@]}"; do
  p=${d:0:3}
  if [ -n "$(git -C /repo status --porcelain)" ]; then echo "/repo not clean"; exit 2; fi
  git -C /repo apply /verif/seeded/$d/patch.diff || { echo "$d patch does not apply"; continue; }
  out=$(./check $p 2>&1); rc=$?
  git -C /repo checkout -- .
  n=$(echo "$out" | grep -c "^VIOLATION")
  neut=$(grep -c '"neutralised"' /verif/seeded/$d/meta.json)
  echo "$d check=$p exit=$rc violations=$n $( [ "$neut" != "0" ] && echo '(neutralised by a later fix: expected exit 0)') $(echo "$out" | grep -m1 '^VIOLATION' | sed 's/.*replay=//')"
done
