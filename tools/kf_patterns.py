"""Known findings, written by hand after triage (DESIGN.md section 7).  Each entry is a genuine defect of
doctrans reproduced by the replay recorded with it; `kf_build.py` turns this into known_findings.json."""
DOC = ["rest", "numpydoc", "google"]
DOCP = ["C01", "C05", "C08", "C18"]
ANY = "*"
FINDINGS = []
FIXED = [
    "fixed: property=C01 4d08a93 numpydoc/google emitters dropped the name line of an untyped parameter (prose glued to neighbours, parameter lost)",
    "fixed: property=C01 fcf7b22 emit.docstring raised AttributeError for an int default under a type mentioning str (Union[int, str])",
    "fixed: property=C01 291a1c7 parse.docstring raised AttributeError on a ReST docstring documenting only a return value",
]


def F(id, props, what, clauses, **kw):
    d = {"id": id, "properties": props, "what": what, "clauses": clauses}
    d.update(kw)
    FINDINGS.append(d)


F("DOC-default-without-prose", DOCP,
  "docstring emitters attach `Defaults to` only to existing prose: the default of a parameter without prose is not in the text",
  ["DefaultKept"], obs=["absent"], when={"k": DOC, "dd": True}, slot=[ANY, "none", ANY, ANY, ANY])

NPG = ["numpydoc", "google"]
ZERO = ["none", "int0", "strEmpty", "float0", "boolF"]

F("DOC-no-type-no-prose-param-dropped", DOCP,
  "a parameter with neither type nor prose produces no line in a ReST docstring and disappears",
  ["NamePresent", "StyleDetected"], when={"k": "rest"}, slot=["none", "none", ANY, ANY, ANY])
F("NUMPYDOC-untyped-param", DOCP,
  "numpydoc scanner/parser mishandles an entry whose type is empty (`name :`): the entry, later entries, the summary and the "
  "return section are mis-attributed or lost, or the parser raises",
  ["NamePresent", "NoExtraNames", "NamesOrder", "SummaryKept", "RetKept.present", "RetKept.typ", "RetKept.def", "RetKept.base",
   "RetKept.stop", "RetKept.ann", "ProseKept.base", "ProseKept.stop", "ProseKept.ann", "TypKept", "DefaultKept", "DefaultFill",
   "NeverRaises"],
  when={"k": "numpydoc", "step": "parse"}, any_slot=["none", ANY, ANY, ANY, ANY])
F("NPG-force-future-default", DOCP,
  "numpydoc/google parser: once one entry has a default, every later entry without one (including the return entry) "
  "acquires the zero value of its type or None (`require_default`)",
  ["DefaultFill", "RetKept.def"], obs=ZERO, when={"k": NPG, "step": "parse"})
F("DOC-code-default-loses-backticks", DOCP,
  "a back-tick quoted code default comes back from a docstring without its back-ticks (a bare string)",
  ["DefaultKept", "RetKept.def"], obs=["codeBare"], when={"k": DOC, "dd": True})
F("DOC-negative-int-as-float", DOCP,
  "extract_default: a negative integer whose declared type is not a plain scalar comes back as a float "
  "(and an absent type is then inferred as float)",
  ["DefaultKept", "TypKept", "ProseKept.ann"], obs=["other", "float", "diff"], when={"k": DOC, "dd": True},
  slot=[["none", "OptInt"], ANY, ANY, ANY, "intNeg"])
F("DOC-empty-string-default", DOCP,
  "an empty-string default renders as `Defaults to ` with nothing after it; prose and default are mangled on the way back",
  ["ProseKept.base", "ProseKept.stop", "ProseKept.ann", "DefaultKept"], when={"k": DOC, "dd": True},
  slot=[ANY, ANY, ANY, ANY, "strEmpty"])
F("REST-return-only-default", DOCP,
  "a return entry that has only a default expression (no type, no prose) is not rendered in a ReST docstring",
  ["RetKept.present", "StyleDetected"], when={"k": "rest"}, ret=[True, "none", "none", ANY, ANY, ANY])
F("DOC-return-default-without-prose", DOCP,
  "the default of a return entry without prose is not in the text",
  ["RetKept.def"], obs=["absent"], when={"k": DOC, "dd": True}, ret=[True, ANY, "none", ANY, ANY, ANY])

F("NPG-force-future-default-no-prose", DOCP,
  "numpydoc/google: the lost default of a prose-less entry (DOC-default-without-prose) is then replaced by the zero value / None "
  "because an earlier entry had a default",
  ["DefaultKept"], obs=ZERO, when={"k": NPG, "step": "parse", "pd": True}, slot=[ANY, "none", ANY, ANY, ANY])
F("NUMPYDOC-return-without-prose", DOCP,
  "numpydoc parser indexes the prose line of the return entry unconditionally: a return entry without prose raises IndexError "
  "or is mis-scanned",
  ["NeverRaises", "RetKept.present", "NoExtraNames", "RetKept.typ", "RetKept.base", "RetKept.def", "SummaryKept"],
  when={"k": "numpydoc", "step": "parse"}, ret=[True, ANY, "none", ANY, ANY, ANY])
F("NUMPYDOC-return-without-type", DOCP,
  "numpydoc renders an untyped return entry as a bare prose line: the parser raises IndexError, drops the entry or reads the "
  "prose as a parameter",
  ["NeverRaises", "RetKept.present", "NoExtraNames", "RetKept.typ", "RetKept.base", "RetKept.def", "RetKept.stop", "RetKept.ann",
   "SummaryKept"],
  when={"k": "numpydoc", "step": "parse"}, ret=[True, "none", ANY, ANY, ANY, ANY])
F("DOC-scalar-return-with-code-default", DOCP,
  "a return entry with a scalar type and a code default: the docstring parser coerces the default with literal_eval and raises "
  "ValueError",
  ["NeverRaises"], obs=["ValueError"], when={"k": DOC, "dd": True, "step": "parse"}, ret=[True, "int", "own", ANY, ANY, "code"])
F("REST-untyped-str-or-code-default", DOCP,
  "ReST: an untyped parameter whose default is a string or code expression: the quoted default text is passed to float()/"
  "literal_eval and raises ValueError",
  ["NeverRaises"], obs=["ValueError"], when={"k": "rest", "dd": True, "step": "parse"},
  slot=["none", "own", ANY, ANY, ["str", "code"]])
F("GOOGLE-return-only", DOCP,
  "google: a docstring with a Returns section but no Args section is scanned wrongly: return type and prose are mangled",
  ["RetKept.typ", "RetKept.base", "RetKept.def", "RetKept.stop", "RetKept.ann", "RetKept.present", "SummaryKept"],
  when={"k": "google", "step": "parse"}, no_params=True)
F("GOOGLE-return-without-type", DOCP,
  "google renders an untyped return entry as a bare indented prose line which the parser reads as the type",
  ["RetKept.typ", "RetKept.base", "RetKept.def", "RetKept.stop", "RetKept.ann", "RetKept.present"],
  when={"k": "google", "step": "parse"}, ret=[True, "none", ANY, ANY, ANY, ANY])
F("DOC-untyped-code-default-typed-str", DOCP,
  "an untyped parameter with a code default comes back typed `str` (the default lost its back-ticks and its type is inferred)",
  ["TypKept"], obs=["str"], when={"k": DOC, "dd": True}, slot=["none", ANY, ANY, ANY, "code"])
F("DOC-empty-string-default-raises", DOCP,
  "numpydoc: `Defaults to ` followed by nothing makes the parser raise SyntaxError",
  ["NeverRaises"], obs=["SyntaxError"], when={"k": DOC, "dd": True, "step": "parse"}, slot=["str", ANY, ANY, ANY, "strEmpty"])
F("DOC-dotted-code-default-cut", DOCP,
  "extract_default cuts an unparenthesised dotted call at its first full stop / loses a code default attached to prose",
  ["DefaultKept", "ProseKept.base", "ProseKept.stop", "ProseKept.ann", "NoExtraNames"], when={"k": DOC, "dd": True},
  slot=[ANY, "own", ANY, ANY, "code"])
F("GOOGLE-return-without-prose", DOCP,
  "google: a return entry without prose is rendered as a bare `type:` line which the parser reads as prose",
  ["RetKept.typ", "RetKept.base", "RetKept.def", "RetKept.stop", "RetKept.ann", "RetKept.present"],
  when={"k": "google", "step": "parse"}, ret=[True, ANY, "none", ANY, ANY, ANY])
