"""Known findings, written by hand after triage (DESIGN.md section 7).  Each entry is a genuine defect of
doctrans reproduced by the replay recorded with it; `kf_build.py` turns this into known_findings.json."""
DOC = ["rest", "numpydoc", "google"]
DOCP = ["C01", "C02", "C03", "C04", "C05", "C06", "C08", "C18"]
ALLP = DOCP
ANY = "*"
FUN = ["function", "method"]
DOCF = DOC + FUN
FINDINGS = []
FIXED = [
    "fixed: property=C01 4d08a93 numpydoc/google emitters dropped the name line of an untyped parameter (prose glued to neighbours, parameter lost)",
    "fixed: property=C01 fcf7b22 emit.docstring raised AttributeError for an int default under a type mentioning str (Union[int, str])",
    "fixed: property=C01 291a1c7 parse.docstring raised AttributeError on a ReST docstring documenting only a return value",
]


def F(id, props, what, clauses, **kw):
    d = {"id": id, "properties": props, "what": what, "clauses": clauses}
    d.update(kw)
    FINDINGS.append(d)


F("DOC-default-without-prose", DOCP,
  "docstring emitters attach `Defaults to` only to existing prose: the default of a parameter without prose is not in the text",
  ["DefaultKept"], obs=["absent"], when={"k": DOC, "dd": True}, slot=[ANY, "none", ANY, ANY, ANY])

NPG = ["numpydoc", "google"]
ZERO = ["none", "int0", "strEmpty", "float0", "boolF"]

F("DOC-no-type-no-prose-param-dropped", DOCP,
  "a parameter with neither type nor prose produces no line in a ReST docstring and disappears",
  ["NamePresent", "StyleDetected"], when={"k": "rest"}, slot=["none", "none", ANY, ANY, ANY])
F("NPG-force-future-default", DOCP,
  "numpydoc/google parser: once one entry has a default, every later entry without one (including the return entry) "
  "acquires the zero value of its type or None (`require_default`)",
  ["DefaultFill", "RetKept.def"], obs=ZERO, when={"k": NPG, "step": "parse"})
F("DOC-code-default-loses-backticks", DOCP,
  "a back-tick quoted code default comes back from a docstring without its back-ticks (a bare string)",
  ["DefaultKept", "RetKept.def"], obs=["codeBare"], when={"k": DOCF, "dd": True})
F("DOC-negative-int-as-float", DOCP,
  "extract_default: a negative integer whose declared type is not a plain scalar comes back as a float "
  "(and an absent type is then inferred as float)",
  ["DefaultKept", "TypKept", "ProseKept.ann"], obs=["other", "float", "diff"], when={"k": DOC, "dd": True},
  slot=[["none", "OptInt"], ANY, ANY, ANY, "intNeg"])
F("FUNC-negative-int-as-float", ALLP,
  "function/method: the docstring of the emitted function carries no type, so `Defaults to -5` is read as a float and that "
  "float (and the inferred type float) overrides the signature's int default and annotation",
  ["DefaultKept", "TypKept", "ProseKept.ann"], obs=["other", "float", "diff", "Opt:float"], when={"k": FUN, "dd": True},
  slot=[ANY, "own", ANY, ANY, "intNeg"])
F("DOC-empty-string-default", DOCP,
  "an empty-string default renders as `Defaults to ` with nothing after it; prose and default are mangled on the way back",
  ["ProseKept.base", "ProseKept.stop", "ProseKept.ann", "DefaultKept", "ConfigTransparent"], when={"k": DOCF + ["class"], "dd": True},
  slot=[ANY, ANY, ANY, ANY, "strEmpty"])
F("REST-return-only-default", DOCP,
  "a return entry that has only a default expression (no type, no prose) is not rendered in a ReST docstring",
  ["RetKept.present", "StyleDetected"], when={"k": "rest"}, ret=[True, "none", "none", ANY, ANY, ANY])
F("DOC-return-default-without-prose", DOCP,
  "the default of a return entry without prose is not in the text",
  ["RetKept.def"], obs=["absent"], when={"k": DOC, "dd": True}, ret=[True, ANY, "none", ANY, ANY, ANY])

F("NPG-force-future-default-no-prose", DOCP,
  "numpydoc/google: the lost default of a prose-less entry (DOC-default-without-prose) is then replaced by the zero value / None "
  "because an earlier entry had a default",
  ["DefaultKept"], obs=ZERO, when={"k": NPG, "step": "parse", "pd": True}, slot=[ANY, "none", ANY, ANY, ANY])
F("NUMPYDOC-return-without-prose", DOCP,
  "numpydoc parser indexes the prose line of the return entry unconditionally: a return entry without prose raises IndexError "
  "or is mis-scanned",
  ["NeverRaises", "RetKept.present", "NoExtraNames", "RetKept.typ", "RetKept.base", "RetKept.def", "SummaryKept"],
  when={"k": "numpydoc", "step": "parse"}, ret=[True, ANY, "none", ANY, ANY, ANY])
F("NUMPYDOC-return-without-type", DOCP,
  "numpydoc renders an untyped return entry as a bare prose line: the parser raises IndexError, drops the entry or reads the "
  "prose as a parameter",
  ["NeverRaises", "RetKept.present", "NoExtraNames", "RetKept.typ", "RetKept.base", "RetKept.def", "RetKept.stop", "RetKept.ann",
   "SummaryKept"],
  when={"k": "numpydoc", "step": "parse"}, ret=[True, "none", ANY, ANY, ANY, ANY])
F("DOC-scalar-return-with-code-default", DOCP,
  "a return entry with a scalar type and a code default: the docstring parser coerces the default with literal_eval and raises "
  "ValueError",
  ["NeverRaises"], obs=["ValueError"], when={"k": DOCF, "dd": True, "step": "parse"}, ret=[True, "int", "own", ANY, ANY, "code"])
F("REST-untyped-str-or-code-default", DOCP,
  "ReST: an untyped parameter whose default is a string or code expression: the quoted default text is passed to float()/"
  "literal_eval and raises ValueError",
  ["NeverRaises"], obs=["ValueError"], when={"k": DOCF, "dd": True, "step": "parse"},
  slot=["none", "own", ANY, ANY, ["str", "code"]])
F("GOOGLE-return-only", DOCP,
  "google: a docstring with a Returns section but no Args section is scanned wrongly: return type and prose are mangled",
  ["RetKept.typ", "RetKept.base", "RetKept.def", "RetKept.stop", "RetKept.ann", "RetKept.present", "SummaryKept"],
  when={"k": "google", "step": "parse"}, no_params=True)
F("GOOGLE-return-without-type", DOCP,
  "google renders an untyped return entry as a bare indented prose line which the parser reads as the type",
  ["RetKept.typ", "RetKept.base", "RetKept.def", "RetKept.stop", "RetKept.ann", "RetKept.present"],
  when={"k": "google", "step": "parse"}, ret=[True, "none", ANY, ANY, ANY, ANY])
F("DOC-untyped-code-default-typed-str", DOCP,
  "an untyped parameter with a code default comes back typed `str` (the default lost its back-ticks and its type is inferred)",
  ["TypKept"], obs=["str"], when={"k": DOC, "dd": True}, slot=["none", ANY, ANY, ANY, "code"])
F("CLASS-untyped-code-default-annotated-str", ALLP,
  "class: an untyped attribute whose default is a code expression is annotated `str`",
  ["Denotes.AttrAnn", "TypKept"], obs=["str"], when={"k": "class"}, slot=["none", ANY, ANY, ANY, "code"])
F("DOC-empty-string-default-raises", DOCP,
  "numpydoc: `Defaults to ` followed by nothing makes the parser raise SyntaxError",
  ["NeverRaises"], obs=["SyntaxError"], when={"k": DOC, "dd": True, "step": "parse"}, slot=["str", ANY, ANY, ANY, "strEmpty"])
F("DOC-dotted-code-default-cut", DOCP,
  "extract_default cuts an unparenthesised dotted call at its first full stop / loses a code default attached to prose",
  ["DefaultKept", "ProseKept.base", "ProseKept.stop", "ProseKept.ann", "NoExtraNames"], when={"k": DOC, "dd": True},
  slot=[ANY, "own", ANY, ANY, "code"])
F("GOOGLE-return-without-prose", DOCP,
  "google: a return entry without prose is rendered as a bare `type:` line which the parser reads as prose",
  ["RetKept.typ", "RetKept.base", "RetKept.def", "RetKept.stop", "RetKept.ann", "RetKept.present"],
  when={"k": "google", "step": "parse"}, ret=[True, ANY, "none", ANY, ANY, ANY])


# ------------------------------------------------------------------------------------------------ class
F("CLASS-documented-first-order", ALLP,
  "parse.class_ lists the attributes that have a :cvar entry (i.e. prose) first and appends the undocumented ones: parameter "
  "order changes when a prose-less parameter precedes a documented one",
  ["NamesOrder"], when={"k": "class", "step": "parse"}, any_slot=[ANY, "none", ANY, ANY, ANY], any_slot2=[ANY, "own", ANY, ANY, ANY])
F("CLASS-untyped-return-code-typed-str", ALLP,
  "class: an untyped return entry with a code default comes back typed `str` (type of the quoted representation)",
  ["RetKept.typ", "Denotes.AttrAnn"], obs=["str"], when={"k": "class"}, ret=[True, "none", ANY, ANY, ANY, "code"])
F("CLASS-untyped-None-default", ALLP,
  "class without default text: an untyped parameter whose default is None comes back as type `str` with default ''",
  ["TypKept", "DefaultKept", "Denotes.AttrVal", "Denotes.AttrAnn"], obs=["str", "strEmpty"], when={"k": "class", "dd": False},
  slot=["none", ANY, ANY, ANY, "none"])
F("CLASS-dotted-type-dropped-with-code-default", ALLP,
  "_infer_default deletes the type of a parameter whose default is code-quoted when the type has no `[` (e.g. np.ndarray)",
  ["TypKept"], obs=["none"], when={"step": "parse"}, slot=["Dotted", ANY, ANY, ANY, "code"])
F("CLASS-untyped-None-default-no-prose", ALLP,
  "class: an untyped, prose-less parameter whose default is None comes back as type `str` with default ''",
  ["TypKept", "DefaultKept", "Denotes.AttrVal", "Denotes.AttrAnn"], obs=["str", "strEmpty"], when={"k": "class"},
  slot=["none", "none", ANY, ANY, "none"])


# ------------------------------------------------------------------------------------------------ function / method
F("FUNC-return-type-dropped-with-code-default", ALLP,
  "_interpolate_return deletes a return type that has no `[` (int, np.ndarray) whenever the function returns an expression",
  ["RetKept.typ"], obs=["none"], when={"k": FUN, "step": "parse"}, ret=[True, ["int", "Dotted"], ANY, ANY, ANY, "code"])
F("FUNC-untyped-return-code", ALLP,
  "function/method: an untyped return entry with a default expression comes back typed `str`, its default a bare string",
  ["RetKept.typ", "RetKept.def"], obs=["str", "codeBare"], when={"k": FUN, "step": "parse"}, ret=[True, "none", ANY, ANY, ANY, "code"])
F("FUNC-docstring-inferred-type-overrides-annotation", ALLP,
  "function/method with default text: the type inferred from the `Defaults to` value in the docstring (int/str/bool/float) takes "
  "precedence over the signature's annotation (Optional[..], Union[..], Literal[..])",
  ["TypKept"], obs=["int", "str", "bool", "float"], when={"k": FUN, "dd": True, "step": "parse"},
  slot=[["OptInt", "OptStr", "OptBool", "UnionIntStr", "LitStr", "LitInt"], "own", ANY, ANY, ANY])
F("FUNC-undocumented-kwargs-dropped", ALLP,
  "parse.function keeps a **kwargs parameter only when the docstring documents it",
  ["NamePresent"], when={"k": FUN, "step": "parse"}, slot=["OptDict", "none", ANY, ANY, ANY])
F("FUNC-dotted-code-default-raises", ALLP,
  "function/method with default text: a dotted call default (`np.empty(0)`) is cut at its first full stop by extract_default and "
  "the remainder makes the docstring parser raise ValueError",
  ["NeverRaises"], obs=["ValueError"], when={"k": FUN, "dd": True, "step": "parse"}, slot=[ANY, "own", ANY, ANY, "code"])

# ------------------------------------------------------------------------------------------------ argparse
F("ARGPARSE-return-default-quoted", ALLP,
  "argparse: the return default is emitted as a string constant (``\"```expr```\"``) inside the returned tuple and comes back "
  "with an extra pair of quotes",
  ["RetKept.def", "Denotes.RetExpr"], obs=["codeQ"], when={"k": "argparse"}, ret=[True, ANY, ANY, ANY, ANY, "code"])
F("ARGPARSE-untyped-return-crash", ALLP,
  "parse.argparse_ast raises AttributeError/KeyError on a returned tuple whose docstring has no usable :rtype (untyped return entry)",
  ["NeverRaises"], when={"k": "argparse", "step": "parse"}, ret=[True, "none", ANY, ANY, ANY, "code"])
F("ARGPARSE-bool-not-required", ALLP,
  "argparse: a `bool` option without default is emitted as not required and reads back as Optional[bool]",
  ["TypKept", "Denotes.OptRequired"], obs=["OptBool", False], when={"k": "argparse"}, slot=["bool", ANY, ANY, ANY, "absent"])
F("ARGPARSE-list-default", ALLP,
  "argparse: a List[str] option with a code default is emitted with action=append and a mangled default (first element / bare "
  "string), and its type comes back altered",
  ["TypKept", "DefaultKept", "Denotes.OptType", "Denotes.OptDefault"], when={"k": "argparse"}, slot=["ListStr", ANY, ANY, ANY, "code"])
F("ARGPARSE-zero-of-composite-is-empty-string", ALLP,
  "argparse: a required List[str] / Literal[..] option without default acquires '' (the zero of str), which is neither a list nor "
  "one of the choices",
  ["DefaultFill"], obs=["strEmpty"], when={"k": "argparse", "step": "parse"}, slot=[["ListStr", "LitStr", "LitInt"], ANY, ANY, ANY, "absent"])

# ------------------------------------------------------------------------------------------------ later hops (C05, C08)
ANYCL = ["NeverRaises", "EmitNeverRaises", "TextStable", "IrStable", "StyleDetected", "SummaryKept", "NamesOrder", "NoExtraNames",
         "NamePresent", "RetKept.present", "RetKept.typ", "RetKept.def", "RetKept.base", "RetKept.stop", "RetKept.ann",
         "TypKept", "DefaultKept", "DefaultFill", "ProseKept.base", "ProseKept.stop", "ProseKept.ann", "FuncKindKept"]
F("FOLLOW-UP-of-corrupt-state", ALLP,
  "follow-up of an earlier failure in the same scenario: the description this step starts from already contains a value outside "
  "the vocabulary (mangled prose / type / default reported at the hop that produced it)",
  [c for c in ANYCL if c not in ("TextStable", "IrStable")], when={"hop": [2, 3]}, corrupt_before=True)
F("NPG-second-pass-quoted-default-raises", ALLP,
  "numpydoc/google: re-parsing a docstring emitted from a description whose prose already carries `Defaults to \"...\"` raises "
  "ValueError (the quoted text is passed to a numeric conversion)",
  ["NeverRaises"], obs=["ValueError"], when={"k": NPG, "dd": True, "step": "parse", "hop": [2, 3]},
  slot=["str", "own", ANY, "same", ["str", "codeBare"]])
F("FUNC-second-emit-untyped-None", ALLP,
  "function/method: emitting again after a parse raises TypeError for an untyped, prose-less parameter whose default is None",
  ["EmitNeverRaises"], obs=["TypeError"], when={"k": FUN, "hop": [2, 3]}, slot=["none", "none", ANY, ANY, "none"])
F("FUNC-return-default-sentence-drift", ALLP,
  "function/method: the `Defaults to` sentence of an untyped return entry changes between passes",
  ["RetKept.ann", "IrStable", "TextStable", "NeverRaises"], when={"k": FUN, "dd": True, "hop": [2, 3]},
  ret=[True, ["none", "str"], "own", ANY, ANY, ["code", "codeBare"]])
F("GOOGLE-return-without-type-drift", ALLP,
  "google: an untyped return entry keeps changing from pass to pass (its prose line is re-read as type, then as prose)",
  ["TextStable", "IrStable", "RetKept.typ", "RetKept.base", "RetKept.present"], when={"k": "google", "hop": [2, 3]},
  ret=[True, "none", ANY, ANY, ANY, ANY])
F("NUMPYDOC-untyped-param-drift", ALLP,
  "numpydoc: a description that started with an untyped parameter keeps changing on later passes (the `name :` line wanders into "
  "the summary)",
  ["TextStable", "IrStable", "SummaryKept", "NoExtraNames", "NamePresent"], when={"k": "numpydoc", "hop": [2, 3]},
  init_slot=["none", ANY, ANY, ANY, ANY])
F("NUMPYDOC-return-without-type-drift", ALLP,
  "numpydoc: a description that started with an untyped return entry keeps changing on later passes (the Returns header is "
  "re-read as parameters, then as summary)",
  ["TextStable", "IrStable", "SummaryKept", "NoExtraNames", "NamePresent", "RetKept.present"], when={"k": "numpydoc", "hop": [2, 3]},
  init_ret=[True, "none", ANY, ANY, ANY, ANY])
F("FOLLOW-UP-of-earlier-failure", ALLP,
  "later hop of a chain whose earlier hop already failed a clause (reported there): the intermediate description is not the one "
  "the chain was meant to carry, so further deviations are consequences",
  [c for c in ANYCL if c not in ("TextStable", "IrStable")] + ["ConfigTransparent"], when={"hop": [2, 3]}, after_earlier_failure=True)

# ------------------------------------------------------------------------------------------------ chains (C05)
F("CHAIN-filled-empty-string-mangles-prose", ALLP,
  "chain: class/argparse fill a missing default of a str / untyped parameter with '' and the next docstring rendering "
  "(`Defaults to ` + nothing) mangles the prose",
  ["Chain.Prose", "Chain.Def", "Chain.Typ"], when={"k": ["class", "argparse"]}, slot=[["str", "none", "OptStr", "LitStr", "ListStr", "UnionIntStr", "TupleIntStr", "Dotted"], "own", ANY, ANY, "absent"])
F("CHAIN-filled-return-default-breaks-argparse", ALLP,
  "chain: after a class hop gave the return entry a zero default, emit.argparse_function raises TypeError (it ast.parse()s the "
  "non-string default)",
  ["EmitNeverRaises"], obs=["TypeError"], when={"k": "argparse", "hop": [2, 3]}, ret=[True, ANY, ANY, ANY, ANY, ["int0", "none", "other"]])
F("CHAIN-untyped-through-class", ALLP,
  "chain: an untyped parameter that passes through a class hop comes back typed `str` (its None / missing default became '')",
  ["Chain.Typ", "Chain.Def"], when={"k": "class"}, slot=["none", ANY, ANY, ANY, ANY])
F("CHAIN-optional-through-argparse", ALLP,
  "chain: Optional[int] / Optional[bool] with default None passes argparse as type str (Optional[str])",
  ["Chain.Typ"], when={"k": "argparse"}, slot=[["OptInt", "OptBool", "int"], ANY, ANY, ANY, ["none", "absent", "intNeg"]])
F("CHAIN-dotted-code-no-prose-dropped", ALLP,
  "chain: a prose-less parameter with a dotted type and code default is lost after a docstring hop following a class hop",
  ["Chain.NamePresent"], slot=["Dotted", "none", ANY, ANY, "code"])
F("CHAIN-default-sentence-diff", ALLP,
  "chain: the `Defaults to` sentence left in the prose by one hop announces a value the next hop has changed (None vs '' etc.)",
  ["Chain.Prose"], obs=[["own", "diff"]], slot=[ANY, "own", ANY, ANY, ANY])
F("CHAIN-argparse-return-default-other", ALLP,
  "chain: a return entry without default passing class then argparse acquires a quoted zero/None default",
  ["Chain.Ret"], when={"k": "argparse"}, ret=[True, ANY, ANY, ANY, ANY, "absent"])
F("CHAIN-numpydoc-untyped-return", ALLP,
  "chain: numpydoc hop with an untyped return entry (see NUMPYDOC-return-without-type)",
  ["Chain.NoExtraNames", "Chain.Summary", "Chain.Ret"], when={"k": "numpydoc"}, ret=[True, "none", ANY, ANY, ANY, ANY])

F("CHAIN-function-None-fill-through-rest-loses-argparse-type", ALLP,
  "chain function / method -> rest -> argparse: the function hop gives a typed parameter without default the default None, the "
  "ReST text then says `Defaults to None`, and the argparse emitter writes `default='None'` without `type=`, so float / bool / int "
  "come back as str",
  ["Chain.Typ"], obs=["str"], when={"k": "argparse"}, slot=[["float", "bool", "int"], ANY, ANY, ANY, "absent"])
F("CHAIN-class-negative-int-from-prose-as-float", ALLP,
  "chain: a `Defaults to -1` sentence left in the prose by an earlier hop is re-read by the class emitter without the declared "
  "type, so an int default is written as `-1.0` (see DOC-negative-int-as-float)",
  ["Chain.Def"], obs=["other"], when={"k": "class"}, slot=[["int", "OptInt", "none"], "own", ANY, ANY, "intNeg"])

# ------------------------------------------------------------------------------------------------ wrapping (C18)
NARROW = [str(x) for x in range(30, 132)]
F("NUMPYDOC-wrapped-return-prose", ALLP,
  "numpydoc with word wrap: the parser reads only the first line of the wrapped prose of "
  "the return entry",
  ["RetKept.base", "RetKept.stop", "RetKept.ann", "RetKept.def", "ConfigTransparent", "NeverRaises"], when={"k": "numpydoc", "wrap": True, "retwrap": True},
  ret=[True, ANY, "own", ANY, ANY, ANY])
F("DOC-summary-reflowed-by-wrap", ALLP,
  "docstring emitters with word wrap re-fill the whole summary as one paragraph: the line breaks of a several-line summary move "
  "and a blank line between its paragraphs is lost (equal only modulo white space)",
  ["SummaryKept", "ConfigTransparent"], obs=["multi~", "one~", ["doc"]], when={"k": DOC, "wrap": True})
F("ARGPARSE-wrap-description-reflows", ALLP,
  "argparse emitter with wrap_description: the description is re-filled, a several-line summary comes back with other line breaks",
  ["SummaryKept", "Denotes.Description"], obs=["multi~", "one~"], when={"k": "argparse", "xo": "wrapdesc"})
F("FUNC-separating-tab-indents-summary-continuation", ALLP,
  "function / method with emit_separating_tab: the second and later lines of a several-line summary come back with extra "
  "indentation (see FUNC-wrapped-summary-indent-drift)",
  ["SummaryKept"], obs=["multi~"], when={"k": FUN, "xo": "septab"})
F("FUNC-wrapped-summary-indent-drift", ALLP,
  "function / method with emit_separating_tab: when a summary runs over several lines after wrapping (a one-line summary longer "
  "than the line, or a several-line summary next to an entry that is too long, which triggers the second wrapping pass), the "
  "indentation of its continuation lines grows with every emit / parse pass (the text never stabilises)",
  ["TextStable"], when={"k": FUN, "xo": "septab", "sumwrap": True})
F("WRAP-reference-already-deviates", ALLP,
  "the rendering without word wrap already deviates from the description (a clause failed at its own step, reported there); the "
  "wrapped rendering is compared with that reference and differs from it",
  ["ConfigTransparent"], when={"ref_failed": True})
_BRK = ("word wrap breaks the line between `Defaults` and `to`: extract_default only knows `defaults to ` / `defaults to\\n`, so "
        "the default is no longer found and the sentence stays in the prose - ")
F("WRAP-break-inside-announcement-numpydoc-param", ALLP, _BRK + "numpydoc parameters",
  ["DefaultKept", "ProseKept.ann", "ProseKept.stop", "ConfigTransparent"],
  obs=["absent", "none", "int0", "strEmpty", "float0", "boolF", "diff", True, ["dann", "def"], ["dann", "def", "typ"], ["dann", "def", "ret.def"], ["dann", "def", "ret.def", "typ"],
       ["dann", "def", "doc"], ["dann", "def", "doc", "typ"], ["dann", "def", "doc", "ret.def"], ["dann", "def", "doc", "ret.def", "typ"]],
  when={"k": "numpydoc", "wrap": True, "brk": True, "step": "parse"})
F("WRAP-break-inside-announcement-rest-return", ALLP, _BRK + "ReST return entry",
  ["RetKept.def", "RetKept.ann", "RetKept.stop", "ConfigTransparent"],
  obs=["absent", "diff", True, ["ret.dann", "ret.def"]],
  when={"k": "rest", "wrap": True, "brk": True, "step": "parse"})
F("ARGPARSE-wrapped-return-prose", ALLP,
  "argparse with word wrap: the `:returns:` line of the generated docstring wraps and only its "
  "first line is read back as the return prose",
  ["RetKept.base", "RetKept.stop", "RetKept.ann", "ConfigTransparent"], when={"k": "argparse", "wrap": True, "retwrap": True},
  ret=[True, ANY, "own", ANY, ANY, ANY])

# ------------------------------------------------------------------------------------------------ locations (C15)
F("LOCATE-function-target-never-replaced", ["C15"],
  "RewriteAtQuery never replaces a whole function definition addressed by the location (visit_FunctionDef only handles "
  "arguments); two tests of the suite (test__conform_filename_unchanged, test_ground_truth_changes) pin this, so it is not repaired",
  ["ReplaceExact", "ReplacedFlag"], obs=[0, False], when={"k": "locate", "target": "func"})
FIXED += [
    "fixed: property=C02 0e3510b emit.class_ raised AttributeError for an int default under a type mentioning str",
    "fixed: property=C07 7b18d2a ir_merge: docstring/signature merge iterated a set difference (PYTHONHASHSEED-dependent order) and moved documented parameters first",
    "fixed: property=C03 541ddb5 to_docstring dropped the :type line of an entry without prose and crashed on a prose-less return entry",
    "fixed: property=C18 998fc6f DOCTRANS_LINE_LENGTH reached textwrap as a str: every emitter raised TypeError when it was set",
    "fixed: property=C15 c54fd17 find_in_ast consumed a path segment at every FunctionDef it walked past (wrong node / not found)",
    "fixed: property=C15 c37504d RewriteAtQuery matched by the non-unique two-segment _location (wrong or no node replaced below depth two)",
]

FIXED += [
    "fixed: property=C20 b875fb9 `gen --output-filename '~/out.py'`: the name was used as typed (FileNotFoundError traceback; an existing output under that spelling was not recognised)",
    "fixed: property=C08 20dac37 emit.class_(emit_call=True) on a class parsed from its own emission nested `def __call__` one level deeper on every pass",
    "fixed: property=C06 b3a54b3 emit.class_(emit_call=True) raised KeyError when the return entry has no default",
    "fixed: property=C05 3f2428a parse.argparse_ast kept the line breaks of a word-wrapped help= text in the prose; the next docstring emitter wrote a broken entry",
    "fixed: property=C18 d11fcc3 ReST parser kept newline + indentation inside a wrapped :type / :rtype and in the :returns: prose (a type with a newline broke the next emitter; a `Defaults` / `to` break hid the return default)",
    "fixed: property=C18 b9d6a82 word wrap cut a word longer than the line in the middle (a long dotted type no longer parsed: SyntaxError)",
    "fixed: property=C18 0aa1c98 numpydoc wrapped the `name : type` line of a long type; the unindented continuation was read as a new entry",
    "fixed: property=C18 1108a03 word wrap broke a hyphenated word after its hyphen (`ml-` / `prepare`); re-joined it came back as `ml- prepare`",
    "fixed: property=C18 2e569ff numpydoc: wrapped prose lost the indentation of its continuation lines; the parser read them as new entries",
    "fixed: property=C10 1f22a3d sync re-emitted and rewrote the file holding the source of truth (the truth was conformed to itself)",
    "fixed: property=C09 2b090a1 sync raised TypeError when a function target file had to be created (_default_options not passed on)",
    "fixed: property=C09 3a4c0f7 sync raised when only two of the three kinds were named on the command line",
    "fixed: property=C11 5aa0c3c appending a definition to a file whose last line had no newline glued the definition to that line (file no longer parsed)",
    "fixed: property=C10 600f800 sync reported a file as modified by comparing syntax trees of differently constructed nodes (always different) instead of the bytes written",
    "fixed: property=C20 9d0bfb8 emit.file truncated the target and then wrote: a fault in between left an empty or half-written file",
    "fixed: property=C20 e221bb6 sync accepted --class / --function / --argparse-function without its name (or a name without its file) and failed later with an internal error",
    "fixed: property=C13 0934082 emitters modified the interface description they were given (class emitter moved the return entry into the parameters; later emitters saw it)",
    "fixed: property=C07 e937248 parse.function padded the signature's defaults from the front with a fixed count: defaults attached to the wrong parameters",
    "fixed: property=C14 b9d1348 sync_properties wrapped the input node itself: a second pair from the same input location was wrapped twice",
    "fixed: property=C19 f2df3a6 gen failed for --type function, for several import lines (glued without newlines) and for annotated callables",
    "fixed: property=C01 49fdcc0 numpydoc: an entry without a type (`name :`) was taken for the heading of a trailing section; later entries, summary and return were mis-attributed",
    "fixed: property=C04 1d31407 parse.argparse_ast raised on add_argument(choices=...) whose members are not strings",
    "fixed: property=C04 0596b8f emit.argparse_function raised on a return default that is not a string",
]

# ------------------------------------------------------------------------------------------------ sync (C09, C10, C11, C20)
SYNCP = ["C09", "C10", "C11", "C20"]
F("SYNC-stale-function-left-stale", SYNCP,
  "sync leaves an existing, stale function / method / argparse-function target untouched (RewriteAtQuery never replaces a whole "
  "FunctionDef; pinned by test__conform_filename_unchanged and test_ground_truth_changes) while reporting it unchanged",
  ["Agreement"], when={"k": "sync", "target": ["function", "argparse"], "pre": "mod-stale", "changed": False})
F("SYNC-method-target-created-at-module-level", SYNCP,
  "sync with a method target `C.f` that does not exist yet (file missing / empty / class without f / no class) appends a bare "
  "`def f` at module level instead of a method of C; `C.f` still does not resolve",
  ["Agreement"], when={"k": "sync", "target": "function", "ctx": "method", "pre": ["missing", "empty", "mod-absent"], "extra": True})
F("SYNC-second-run-reformats-module", SYNCP,
  "sync: a class appended to a file with other statements is written without reformatting them; the next run re-emits the "
  "whole module through black, so bytes change again on the second run (stable from the third)",
  ["Idempotent"], when={"k": "sync", "target": "class", "changed": True, "pre": "mod-agree", "step": 2,
                        "init_pre": ["mod-absent", "mod-absent-nonl"]})
F("SYNC-method-target-appended-every-run", SYNCP,
  "sync with a method target `C.f` that is never found appends another bare `def f` on every run (follows from "
  "SYNC-method-target-created-at-module-level)",
  ["Idempotent", "OldOrNew", "FrameKept"], when={"k": "sync", "target": "function", "ctx": "method", "extra": True,
                                                 "pre": ["missing", "empty", "mod-absent"]})

F("SYNC-nested-class-target-created-at-module-level", SYNCP,
  "sync with a nested class target `Outer.ConfigClass` that does not exist yet (file missing / empty / Outer without it / no Outer) "
  "appends a top-level `class ConfigClass` instead of a member of Outer; `Outer.ConfigClass` still does not resolve "
  "(the same defect as SYNC-method-target-created-at-module-level)",
  ["Agreement"], when={"k": "sync", "target": "class", "ctx": ["nested", "deep"], "pre": ["missing", "empty", "mod-absent"], "extra": True})
F("SYNC-nested-class-target-appended-every-run", SYNCP,
  "sync with a nested class target that is never found appends another top-level class on every run",
  ["Idempotent", "OldOrNew", "FrameKept"], when={"k": "sync", "target": "class", "ctx": ["nested", "deep"], "extra": True,
                                                 "pre": ["missing", "empty", "mod-absent"]})

F("SYNC-argparse-target-of-function-truth-cannot-become-truth", SYNCP,
  "an argparse function that sync generated from a function truth with a return entry returns a tuple but documents only "
  "`:rtype: ArgumentParser` (see ARGPARSE-untyped-return-crash); named as the truth of the next invocation it cannot be parsed "
  "(AttributeError)",
  ["NoInternalError"], when={"k": "sync", "truth": "argparse", "exc": "AttributeError", "switched": True})

# ------------------------------------------------------------------------------------------------ sync_properties (C14)
F("SYNCPROPS-earlier-pair-renames-onto-later-address", ["C14"],
  "sync_properties applies the pairs one after the other on the tree it is changing; a replaced node takes the *name* of its "
  "input, so when a later pair addresses a sibling of that name the location resolves to the node just written and the "
  "originally addressed one is left alone",
  ["AllPairsApplied", "OnlyAddressedChanged"], when={"k": "syncprops", "rename_clash": True})

# ------------------------------------------------------------------------------------------------ merge (C07, C12)
F("MERGE-undocumented-kwargs-dropped", ["C07"],
  "parse.function / parse.class_ keep a **kwargs parameter only when the docstring documents it (adding it is pinned out by the "
  "golden test test_to_argparse_google_tf_tensorboard)",
  ["NoDrop"], when={"k": "merge", "name": "kwargs", "documented": False})
F("MERGE-numpydoc-untyped-entry", ["C07"],
  "numpydoc docstring written by a user with an entry that has no type (`name :` / `kwargs :`): that entry and its prose are lost "
  "(and documented types of neighbours may be ignored)",
  ["NoDrop", "Attribution", "TypMerged", "DefaultMerged"], when={"k": "merge", "style": "numpydoc", "any_untyped_doc": True})
F("MERGE-class-documented-attributes-first", ["C07"],
  "parse.class_ lists the attributes that have a :cvar entry first and the undocumented ones after them, whatever their order in "
  "the class body (same defect as CLASS-documented-first-order)",
  ["SourceOrder"], when={"k": "merge", "kind": "class", "nattrs": 2})

# ------------------------------------------------------------------------------------------------ prose (C17)
BRK = ["bracketed", "brackdot", "tuple"]
DOTV = ["call", "dotted", "code"]
F("PROSE-rest-of-sentence-glued", ["C17"],
  "extract_default with removal: the text after the default sentence is re-joined to the prose without its separating space "
  "(`...epochs.It is also used later`)",
  ["ProseBack"], when={"k": "prose", "remove": True, "suffix": "sentence"})
F("PROSE-line-starting-with-announcement", ["C17"],
  "extract_default with removal on a line that starts with the announcement returns garbage prose (`Defaults to 2`) because it "
  "slices at `_start_idx - 1`",
  ["ProseBack"], when={"k": "prose", "remove": True, "prefix": "none"})
F("PROSE-bracketed-value-never-ends", ["C17"],
  "extract_default counts closing brackets as opening ones, so a full stop after `]` / `)` never ends the value: the rest of the line "
  "is swallowed into the default",
  ["ValueBack", "ProseBack", "TypeBack"], when={"k": "prose", "value": BRK, "mode": "read"})
F("PROSE-negative-int-becomes-float", ["C17"],
  "extract_default: a negative integer without a scalar declared type comes back as a float (`isdecimal` rejects the sign, `float()` accepts it)",
  ["ValueBack", "TypeBack"], when={"k": "prose", "value": "intNeg", "typ": ["none", "OptInt"]})
F("PROSE-dotted-value-cut-at-first-dot", ["C17"],
  "extract_default cuts an unparenthesised dotted name or call (`np.float32`, `np.empty(0)`) at its first full stop and glues the rest to the prose; "
  "back-ticks of a code value are stripped",
  ["ValueBack", "ProseBack", "TypeBack"], when={"k": "prose", "value": DOTV})
F("PROSE-word-default-suppresses-announcement", ["C17"],
  "set_default_doc does not write the `Defaults to` sentence when the prose merely contains the word `default(s)`, so the value is not in the text",
  ["ValueBack", "ProseBack", "TypeBack"], when={"k": "prose", "mode": "write", "prefix": "dfltword"})
F("PROSE-list-typed-bracket-quoted", ["C17"],
  "a bracketed default under a List[str] type is quoted by set_default_doc / coerced on the way back and does not return as written",
  ["ValueBack", "TypeBack"], when={"k": "prose", "value": "bracketed", "typ": "ListStr"})
F("PROSE-unquoted-string-with-str-type-raises", ["C17"],
  "extract_default with declared type `str` passes an unquoted string value to ast.literal_eval and raises ValueError",
  ["NeverRaises"], when={"k": "prose", "typ": "str", "value": "bare", "mode": "read"})

# ------------------------------------------------------------------------------------------------ bodies (C16)
F("BODY-return-not-last-duplicated", ["C16"],
  "function/method: the last top-level `return <expr>` is taken as the default return even when other statements follow it; it is "
  "kept in place and emitted once more at the end",
  ["Verbatim", "ReturnOnce", "NoneDuplicated"], when={"k": "body", "kind": "function", "ret_not_last": True})
F("BODY-multiple-returns", ["C16"],
  "function/method with several top-level `return <expr>` statements: only the last one is treated as the interface's return, the result "
  "has one more / one fewer return than the source",
  ["Verbatim", "ReturnOnce", "NoneDuplicated", "NoneDropped"], when={"k": "body", "kind": "function", "multi_ret": True})
F("BODY-call-rewrites-shadowed-names", ["C16"],
  "emit.class_(emit_call=True): RewriteName turns every Name spelled like a parameter into self.<name>, including names bound by a nested "
  "function's own parameters or a comprehension target",
  ["OnlyParamRefsRewritten"], when={"k": "body", "has_shadow": True})
F("BODY-argparse-leading-string-expression-dropped", ["C16"],
  "emit.argparse_function takes a leading string expression of the carried statements for the docstring (already removed by the parser) "
  "and drops it (and an `argument_parser = ...` assignment after it)",
  ["Verbatim", "NoneDropped"], when={"k": "body", "kind": "argparse", "first": "strexpr"})

F("CLASS-falsy-default-under-str-type", ALLP,
  "class emitter: `quote(default) if default else zero` treats an explicit empty-string default of an Optional[str] attribute as missing "
  "and writes None",
  ["DefaultKept", "Denotes.AttrVal"], obs=["none"], when={"k": "class"}, slot=["OptStr", ANY, ANY, ANY, "strEmpty"])
F("GOOGLE-empty-string-default-drift", ALLP,
  "google: a `Defaults to ` sentence with nothing after it (empty-string default) loses / regains a trailing blank on every pass",
  ["TextStable", "IrStable"], when={"k": "google", "dd": True, "hop": [2, 3]}, init_slot=[["str", "OptStr", "none"], ANY, ANY, ANY, ["strEmpty", "absent"]])
F("ARGPARSE-int-literal-without-type", ALLP,
  "argparse: Literal[5, 7] without a default is emitted as choices=(5, 7) with no type=int, so the option compares strings with ints and "
  "reads back as Literal['5', '7']",
  ["TypKept", "Denotes.OptType", "Chain.Typ"], when={"k": "argparse"}, slot=["LitInt", ANY, ANY, ANY, "absent"])
F("SYNC-module-docstring-reindented", SYNCP,
  "sync rewriting a class in place re-emits the module through ast_parse, which re-indents the module docstring "
  "(`\\n    text\\n    `): the docstring statement of the target file changes",
  ["FrameKept", "OldOrNew"], when={"k": "sync", "target": "class", "moddoc": True, "changed": True})
