#!/usr/bin/env python3
"""Authoring helper: assembles /verif/known_findings.json from the pattern sources below (hand-written).
Run by hand after editing; never invoked by a check."""
import json, os, sys
HERE = os.path.dirname(os.path.abspath(__file__))
sys.path.insert(0, HERE)
from kf_patterns import FINDINGS, FIXED
ids = [f["id"] for f in FINDINGS]
assert len(ids) == len(set(ids)), "duplicate ids"
json.dump({"findings": FINDINGS, "fixed": FIXED}, open(os.path.join(os.path.dirname(HERE), "known_findings.json"), "w"), indent=1)
print(len(FINDINGS), "findings")
