#!/bin/bash
# usage: tools/try_seeded.sh <seeded-dir> <check> [<check> ...]   -- applies seeded/<dir>/patch.diff to /repo, runs baseline + demo + checks, reverts
set -u
D=/verif/seeded/$1; shift
cd /repo || exit 2
if [ -n "$(git status --porcelain)" ]; then echo "/repo not clean"; exit 2; fi
echo "== demo without the change"; (cd /repo && PYTHONPATH=/repo /venv/bin/python $D/demo.py >/dev/null 2>&1; echo "exit $?")
git apply $D/patch.diff || { echo "patch does not apply"; exit 2; }
echo "== baseline with the change"; /verif/tools/baseline.py | head -3
echo "== demo with the change"; (cd /repo && PYTHONPATH=/repo /venv/bin/python $D/demo.py >/dev/null 2>&1; echo "exit $?")
for c in "$@"; do echo "== check $c"; (cd /verif && ./check $c 2>&1 | grep -E "VIOLATION|ok violations|FAIL|MACHINERY" | head -4); done
git checkout -- . ; git status --porcelain | head -2
