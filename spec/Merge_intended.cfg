SPECIFICATION Spec
CONSTANTS
  MissingOrder = "signature"
  Reorder = TRUE
  PadFromFront = FALSE
INVARIANT NoDropNoDup
INVARIANT SigDefaults
INVARIANT SourceOrder
INVARIANT Deterministic
CHECK_DEADLOCK FALSE
