SPECIFICATION Spec
CONSTANTS
  MissingOrder = "signature"
  Reorder = TRUE
  PadFromFront = FALSE
  DocExtras = {}
INVARIANT NoDropNoDup
INVARIANT SigDefaults
INVARIANT SourceOrder
INVARIANT Deterministic
CHECK_DEADLOCK FALSE
