---------------------------- MODULE ProseExport ----------------------------
EXTENDS Prose, Json, IOUtils, SequencesExt
ASSUME ndJsonSerialize(IOEnv.EXPORT_DIR \o "/prose.ndjson", SetToSeq({[case |-> x, want |-> Expected(x)] : x \in Cases}))
ASSUME PrintT(<<"exported", Cardinality(Cases)>>)
=============================================================================
