SPECIFICATION Spec
CONSTANTS
  Size = "medium"
INVARIANT DomainWellFormed
INVARIANT Unique
INVARIANT AlgEqualsSpec
INVARIANT ReplaceExact
CHECK_DEADLOCK FALSE
