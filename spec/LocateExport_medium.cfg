SPECIFICATION Spec
CONSTANTS
  Size = "medium"
CHECK_DEADLOCK FALSE
