------------------------------- MODULE Domain -------------------------------
(***************************************************************************)
(* Token vocabulary shared by every doctrans specification.                *)
(*                                                                         *)
(* A token is the name of one concrete value chosen by a concretisation    *)
(* table (vf/domain.py: GAMMA).  TLC enumerates classes (tokens); the      *)
(* tables vary the concrete text inside a class.  Every record always has  *)
(* every field: "absent"/"none" strings instead of optional fields.        *)
(***************************************************************************)
EXTENDS Naturals, Sequences, FiniteSets, TLC

Kind    == {"rest", "numpydoc", "google", "class", "function", "method", "argparse"}
DocKind == {"rest", "numpydoc", "google"}
FunKind == {"function", "method"}

\* ---- types -----------------------------------------------------------------
ScalarTyp == {"str", "int", "float", "bool"}
TypTok    == {"none"} \cup ScalarTyp \cup
             {"OptStr", "OptInt", "OptBool", "ListStr", "LitStr", "LitInt", "UnionIntStr", "TupleIntStr", "Dotted"}
KwTyp     == "OptDict"                       \* the type of a **kwargs-style parameter (N7)
\* tokens that only ever appear in observations (fills and fall-backs)
ObsTypTok == TypTok \cup {KwTyp, "object", "Any", "NoneType", "dict", "other"}
             \cup {"Opt:" \o t : t \in {"float", "ListStr", "LitStr", "LitInt", "UnionIntStr", "TupleIntStr", "Dotted", "object", "Any", "dict", "NoneType"}}

\* ---- defaults --------------------------------------------------------------
\* "strNum": a string whose text reads as another literal ("5", "True", "1e3", "None"): it must stay a str
DefTok    == {"absent", "none", "int0", "intPos", "intNeg", "float", "float0", "boolT", "boolF", "strEmpty", "str", "strNum", "code"}
ObsDefTok == DefTok \cup {"codeBare", "codeQ", "other"}

\* which defaults make sense for which declared type (the supported domain of the quantifier)
Compat(t) ==
  CASE t = "none"        -> {"absent", "none", "int0", "intPos", "intNeg", "float", "boolT", "boolF", "str", "code"}
    [] t = "str"         -> {"absent", "str", "strEmpty", "strNum"}
    [] t = "int"         -> {"absent", "int0", "intPos", "intNeg"}
    [] t = "float"       -> {"absent", "float", "float0"}
    [] t = "bool"        -> {"absent", "boolT", "boolF"}
    [] t = "OptStr"      -> {"absent", "none", "str", "strEmpty", "strNum"}            \* falsy explicit defaults under Optional[..] included
    [] t = "OptInt"      -> {"absent", "none", "intPos", "intNeg", "int0"}
    [] t = "OptBool"     -> {"absent", "none", "boolT", "boolF"}
    [] t = "ListStr"     -> {"absent", "none", "code"}
    [] t = "LitStr"      -> {"absent", "str"}
    [] t = "LitInt"      -> {"absent", "intPos", "int0"}      \* a falsy member as default (tables T1 / TN have 0 among the members)
    [] t = "UnionIntStr" -> {"absent", "intPos", "str", "strNum"}
    [] t = "TupleIntStr" -> {"absent", "code"}
    [] t = "Dotted"      -> {"absent", "none", "code"}
    [] t = KwTyp         -> {"absent", "none"}
    [] OTHER             -> {"absent"}

\* Python type of a default token, as a type token ("none" = no scalar type)
TypeOfDef(d) ==
  CASE d \in {"int0", "intPos", "intNeg"} -> "int"
    [] d \in {"float", "float0"}          -> "float"
    [] d \in {"boolT", "boolF"}           -> "bool"
    [] d \in {"str", "strEmpty", "strNum"} -> "str"
    [] OTHER                              -> "none"

\* zero value of a type (documented normalisation N5: simple_types table of the code base)
Zero(t) ==
  CASE t = "int"   -> "int0"
    [] t = "str"   -> "strEmpty"
    [] t = "float" -> "float0"
    [] t = "bool"  -> "boolF"
    [] OTHER       -> "none"

\* ---- prose -----------------------------------------------------------------
\* dbase: whose prose it is ("own" = this slot's sentence, "none" = no prose, "other" = anything else);
\* dstop: ends with a full stop;  dann: a `Defaults to ...` sentence is attached:
\*        "no" / "same" (announces this slot's default) / "diff" (announces something else)
DBase == {"own", "none", "other"}
DAnn  == {"no", "same", "diff"}

NameTok == {"p1", "p2", "p3", "p4", "kw"}

Slot(n, t, db, ds, da, d) == [name |-> n, typ |-> t, dbase |-> db, dstop |-> ds, dann |-> da, def |-> d]
IsKw(s) == s.name = "kw"

\* well-formed *input* slots: prose without announcement, compatible default
InSlots(names, typs, defs) ==
  { Slot(n, t, db, ds, "no", d) :
      n \in names, t \in typs, db \in {"own", "none"}, ds \in BOOLEAN, d \in defs }
GoodIn(s) == /\ s.def \in Compat(s.typ)
             /\ (s.dbase = "none" => ~s.dstop)

KwSlots == { s \in { Slot("kw", KwTyp, db, ds, "no", d) : db \in {"own", "none"}, ds \in BOOLEAN, d \in {"absent", "none"} } :
              s.dbase = "none" => ~s.dstop }

\* ---- return entry ----------------------------------------------------------
RetTyp == {"none", "int", "TupleIntStr", "Dotted"}
Ret(p, t, db, ds, da, d) == [present |-> p, typ |-> t, dbase |-> db, dstop |-> ds, dann |-> da, def |-> d]
NoRet == Ret(FALSE, "none", "none", FALSE, "no", "absent")
InRets == {NoRet} \cup
          { Ret(TRUE, t, db, ds, "no", d) : t \in RetTyp, db \in {"own", "none"}, ds \in BOOLEAN, d \in {"absent", "code"} }
GoodRet(r) == /\ (r.dbase = "none" => ~r.dstop)
              /\ (r.present => (r.typ # "none" \/ r.dbase # "none" \/ r.def # "absent"))

\* ---- interface description (IR) -------------------------------------------
SumTok == {"one", "multi"}                   \* one-line / several-line summary
IR(sm, ps, r) == [doc |-> sm, params |-> ps, ret |-> r]

Names(ir)   == [i \in 1..Len(ir.params) |-> ir.params[i].name]
UniqueNames(ir) == \A i, j \in 1..Len(ir.params) : i # j => ir.params[i].name # ir.params[j].name
KwLast(ir)  == \A i \in 1..Len(ir.params) : IsKw(ir.params[i]) => i = Len(ir.params)
WellFormedIR(ir) == UniqueNames(ir) /\ KwLast(ir)

\* ---- emitter options -------------------------------------------------------
\* dd: emit_default_doc ("default text on/off"); the remaining options never appear in an allowed-set
\* (ConfigTransparent, C03/C18): they are carried by trace events only.
Opts == [dd : BOOLEAN]

=============================================================================
