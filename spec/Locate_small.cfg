SPECIFICATION Spec
CONSTANTS
  Size = "small"
INVARIANT DomainWellFormed
INVARIANT Unique
INVARIANT AlgEqualsSpec
INVARIANT ReplaceExact
CHECK_DEADLOCK FALSE
