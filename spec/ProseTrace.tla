----------------------------- MODULE ProseTrace -----------------------------
(* Trace validation for Prose.tla: {"id", "case": Case, "exc", "obs": [dflt, pytype, prose]} recorded from the real       *)
(* set_default_doc / extract_default; obs.prose \in "line" | "prefix+suffix" | "other".                                   *)
EXTENDS Prose, Json, IOUtils
Traces == IF "TRACE_FILE" \in DOMAIN IOEnv THEN ndJsonDeserialize(IOEnv.TRACE_FILE) ELSE <<>>
VARIABLES tid, l
T == Traces[tid]
W == Expected(T.case)
Clauses ==
  IF T.exc # "none" THEN << <<"NeverRaises", FALSE>> >>
  ELSE IF T.case.phrase = "none"
    THEN << <<"Untouched", T.obs.dflt = "absent" /\ T.obs.prose = "line">> >>
    ELSE << <<"ValueBack", T.obs.dflt = W.dflt>>,
            <<"TypeBack", T.obs.dflt # W.dflt \/ T.obs.pytype = W.pytype>>,
            <<"ProseBack", T.obs.prose = W.prose>> >>
TInit == tid \in 1..Len(Traces) /\ l = 1 /\ c = [mode |-> "trace"] /\ out = Pending
TStep == /\ l = 1
         /\ LET bad == SelectSeq(Clauses, LAMBDA x : ~x[2]) IN \A i \in 1..Len(bad) : PrintT(<<"F", T.id, 1, bad[i][1], "-">>)
         /\ PrintT(<<"D", T.id, 1>>)
         /\ l' = 2 /\ UNCHANGED <<tid, vars>>
TraceSpec == TInit /\ [][TStep]_<<tid, l, vars>>
=============================================================================
