SPECIFICATION Spec
CONSTANTS
  InPlace = FALSE
  MaxLen = 5
INVARIANT NonInterference
INVARIANT ObsEquiv
INVARIANT Unmodified
CHECK_DEADLOCK FALSE
