SPECIFICATION Spec
CONSTANTS
  Atomic = TRUE
  SkipTruth = TRUE
  MaxRuns = 2
  BySpelling = FALSE
  Twin = FALSE
  Rich = TRUE
  SkipKind = FALSE
INVARIANT Agreement
INVARIANT TruthUntouched
INVARIANT ReportTruthful
INVARIANT FrameKept
INVARIANT OldOrNew
INVARIANT Untouched
PROPERTY Idempotent
CHECK_DEADLOCK FALSE
