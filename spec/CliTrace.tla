------------------------------ MODULE CliTrace ------------------------------
(* Trace validation for Cli.tla: one NDJSON line per real `python -m doctrans ...` run:                        *)
(*   {"id", "inv": invocation record (as in Cli.tla), "out": outcome class, "changed": BOOLEAN, "status": int} *)
EXTENDS Cli, Json, IOUtils, Sequences
Traces == IF "TRACE_FILE" \in DOMAIN IOEnv THEN ndJsonDeserialize(IOEnv.TRACE_FILE) ELSE <<>>
VARIABLES tid, l
T == Traces[tid]
\* JSON objects deserialise to records / functions over strings: rebuild the invocation in Cli.tla's shape
I == IF T.inv.cmd = "sync"
       THEN [cmd |-> "sync", truth |-> T.inv.truth, file |-> [k \in K |-> T.inv.file[k]], name |-> [k \in K |-> T.inv.name[k]]]
       ELSE T.inv
Clauses ==
  << <<"OutcomeAllowed", T.out \in Allowed(I)>>,
     <<"NeverInternal", T.out # "internal">>,
     <<"RejectedFrame", MayChange(I, T.out) \/ ~T.changed>>,
     <<"UsageStatus2", ~(Reject(I) /\ T.out = "usage") \/ T.status = 2>> >>
TInit == tid \in 1..Len(Traces) /\ l = 1 /\ inv = [cmd |-> "trace"] /\ out = "trace" /\ changed = FALSE
TStep == /\ l = 1
         /\ LET bad == SelectSeq(Clauses, LAMBDA c : ~c[2]) IN \A i \in 1..Len(bad) : PrintT(<<"F", T.id, 1, bad[i][1], "-">>)
         /\ PrintT(<<"D", T.id, 1>>)
         /\ l' = 2 /\ UNCHANGED <<tid, vars>>
TraceSpec == TInit /\ [][TStep]_<<tid, l, vars>>
=============================================================================
