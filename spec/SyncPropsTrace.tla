--------------------------- MODULE SyncPropsTrace ---------------------------
(* Trace validation for SyncProps.tla.  One NDJSON line per real sync_properties call (vf/syncprops_check.py):                       *)
(*   {"id", "wrap": BOOLEAN, "eval": BOOLEAN, "pairs": [[inLoc, outLoc, inResolves, outResolves] ...], "exc": "none"|Exc,            *)
(*    "input_same": BOOLEAN, "parses": BOOLEAN, "out_same": BOOLEAN,                                                               *)
(*    "changed": [outLocs whose node changed], "got": [[outLoc, name, ann] ...], "want": [[outLoc, name, ann] ...] }                 *)
(* `want` is computed by the harness from Python's ast view of the input file with SyncProps!Wrap's rule; TLC checks the relations.  *)
EXTENDS Naturals, Sequences, FiniteSets, TLC, Json, IOUtils, SequencesExt
Traces == IF "TRACE_FILE" \in DOMAIN IOEnv THEN ndJsonDeserialize(IOEnv.TRACE_FILE) ELSE <<>>
VARIABLES tid, l
T == Traces[tid]
SetOf(s) == {s[i] : i \in 1..Len(s)}
AllResolve == \A i \in 1..Len(T.pairs) : T.pairs[i][3] /\ T.pairs[i][4]
Addressed == {T.pairs[i][2] : i \in 1..Len(T.pairs)}
Clauses ==
  << <<"InputUntouched", T.input_same>>,
     <<"StillParses", T.parses>> >>
  \o (IF AllResolve
        THEN << <<"NeverRaises", T.exc = "none">>,
                <<"OnlyAddressedChanged", T.exc # "none" \/ SetOf(T.changed) \subseteq Addressed>>,
                <<"AllPairsApplied", T.exc # "none" \/ SetOf(T.got) = SetOf(T.want)>> >>
        ELSE << <<"UnresolvedIsError", T.exc # "none">>,
                <<"UnresolvedLeavesOutput", T.out_same>> >>)
TInit == tid \in 1..Len(Traces) /\ l = 1
TStep == /\ l = 1
         /\ LET bad == SelectSeq(Clauses, LAMBDA x : ~x[2]) IN \A i \in 1..Len(bad) : PrintT(<<"F", T.id, 1, bad[i][1], "-">>)
         /\ PrintT(<<"D", T.id, 1>>)
         /\ l' = 2 /\ UNCHANGED tid
TraceSpec == TInit /\ [][TStep]_<<tid, l>>
=============================================================================
