---------------------------- MODULE MergeExport ----------------------------
(* spec -> code: the (signature, docstring) inputs of Merge.tla as NDJSON (env EXPORT_DIR) *)
EXTENDS Merge, Json, IOUtils
ASSUME ndJsonSerialize(IOEnv.EXPORT_DIR \o "/merge.ndjson", SetToSeq({[sig |-> s, doc |-> d] : s \in {x \in Sigs : ValidSig(x)}, d \in Docs}))
=============================================================================
