SPECIFICATION Spec
CONSTANTS
  Dom = "pair"
  MaxHops = 0
CHECK_DEADLOCK FALSE
