------------------------------- MODULE Prose -------------------------------
(***************************************************************************)
(* C17: default values survive the trip through prose.                     *)
(*                                                                         *)
(* A description line is  prefix . announcement . value . suffix  over     *)
(* classes of text (the concrete words, numbers and quotes come from the   *)
(* concretisation in vf/prose_check.py).  Two directions:                  *)
(*   "write"  set_default_doc renders `Defaults to <value>` after the      *)
(*            prefix, extract_default reads it back                         *)
(*   "read"   a hand-written line with one of the four announcement        *)
(*            phrases is read by extract_default                            *)
(* The laws (what C17 states) are total functions of the case:             *)
(*   ValueBack   the extracted default has the value class of the case and *)
(*               the Python type that goes with it                         *)
(*   ProseBack   with removal on, the returned prose is prefix . suffix    *)
(*               (modulo runs of whitespace); with removal off, the line   *)
(*   Untouched   a line without announcement comes back identical, with no *)
(*               default, whatever words (`default`, `defaults`) it has    *)
(* TLC enumerates the cases (Cases), checks the laws are well defined      *)
(* (exactly one expected outcome per case) and exports them.               *)
(***************************************************************************)
EXTENDS Naturals, Sequences, FiniteSets, TLC

Prefix == {"none", "plain", "stop", "comma", "paren", "decimal", "backtick", "dfltword", "twosent"}
Phrase == {"none", "defaults to", "Defaults to", "Default value is", "Default:"}
Value  == {"intPos", "intNeg", "int0", "float", "floatNeg", "exp", "boolT", "boolF", "none", "bare", "quoted", "bracketed",
           "brackdot", "tuple", "call", "dotted", "code"}
Suffix == {"none", "stop", "sentence"}
Typ    == {"none", "int", "float", "str", "bool", "OptInt", "ListStr"}
Mode   == {"write", "read"}

\* the Python type a value class must come back with
PyType(v) ==
  CASE v \in {"intPos", "intNeg", "int0"}      -> "int"
    [] v \in {"float", "floatNeg", "exp"}      -> "float"
    [] v \in {"boolT", "boolF"}                -> "bool"
    [] v = "none"                              -> "NoneType"
    [] OTHER                                   -> "str"        \* bare words, quoted strings, brackets, calls, code: text

\* which declared types make sense for which value (the supported domain)
TypOK(t, v) ==
  CASE t = "none"    -> TRUE
    [] t = "int"     -> v \in {"intPos", "intNeg", "int0"}
    [] t = "float"   -> v \in {"float", "floatNeg", "exp"}
    [] t = "bool"    -> v \in {"boolT", "boolF"}
    [] t = "str"     -> v \in {"bare", "quoted"}
    [] t = "OptInt"  -> v \in {"intPos", "intNeg", "none"}
    [] t = "ListStr" -> v \in {"bracketed", "none"}

Case == [mode : Mode, prefix : Prefix, phrase : Phrase, value : Value, suffix : Suffix, typ : Typ, remove : BOOLEAN]
WellFormed(c) ==
  /\ TypOK(c.typ, c.value)
  /\ (c.mode = "write" => c.phrase = "Defaults to" /\ c.suffix = "none" /\ c.prefix # "none")
  /\ (c.phrase = "none" => c.value = "bare" /\ c.typ = "none")      \* one representative: there is no value
  /\ (c.prefix = "none" => c.suffix = "none")
Cases == {c \in Case : WellFormed(c)}

\* ---- the laws as an expected outcome ---------------------------------------------
Expected(c) ==
  IF c.phrase = "none"
    THEN [dflt |-> "absent", pytype |-> "none", prose |-> "line"]                                  \* Untouched
    ELSE [dflt |-> c.value, pytype |-> PyType(c.value), prose |-> IF c.remove THEN "prefix+suffix" ELSE "line"]

VARIABLES c, out
vars == <<c, out>>
Pending == [dflt |-> "pending", pytype |-> "pending", prose |-> "pending"]
Init == c \in Cases /\ out = Pending
Judge == out = Pending /\ out' = Expected(c) /\ UNCHANGED c
Spec == Init /\ [][Judge]_vars

LawsTotal == out # Pending => (out.dflt = "absent" <=> c.phrase = "none")
TypeKept  == out # Pending /\ c.phrase # "none" => out.pytype = PyType(c.value)
=============================================================================
