SPECIFICATION Spec
CONSTANTS
  InPlace = FALSE
  MaxLen = 4
INVARIANT NonInterference
INVARIANT ObsEquiv
INVARIANT Unmodified
CHECK_DEADLOCK FALSE
