SPECIFICATION Spec
CONSTANTS
  MissingOrder = "set"
  Reorder = FALSE
  PadFromFront = FALSE
INVARIANT NoDropNoDup
INVARIANT SigDefaults
INVARIANT SourceOrder
INVARIANT Deterministic
CHECK_DEADLOCK FALSE
