SPECIFICATION Spec
CONSTANTS
  MissingOrder = "set"
  Reorder = FALSE
  PadFromFront = FALSE
  DocExtras = {}
INVARIANT NoDropNoDup
INVARIANT SigDefaults
INVARIANT SourceOrder
INVARIANT Deterministic
CHECK_DEADLOCK FALSE
