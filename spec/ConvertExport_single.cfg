SPECIFICATION Spec
CONSTANTS
  Dom = "single"
  MaxHops = 0
CHECK_DEADLOCK FALSE
