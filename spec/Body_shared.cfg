SPECIFICATION Spec
CONSTANTS
  Rules = "structural"
  MaxLen = 4
  Shared = TRUE
INVARIANT Verbatim
INVARIANT ReturnOnce
INVARIANT HeldIntact
CHECK_DEADLOCK FALSE
