SPECIFICATION Spec
CONSTANTS
  Rules = "structural"
  MaxLen = 5
  Shared = FALSE
CHECK_DEADLOCK FALSE
