SPECIFICATION Spec
CONSTANTS
  MissingOrder = "set"
  Reorder = TRUE
  PadFromFront = FALSE
  DocExtras = {"yy", "zz"}
INVARIANT NoDropNoDup
INVARIANT SigDefaults
INVARIANT Deterministic
CHECK_DEADLOCK FALSE
