----------------------------- MODULE CliExport -----------------------------
(* spec -> code: every invocation shape of Cli.tla as NDJSON (env EXPORT_DIR) *)
EXTENDS Cli, Json, IOUtils, SequencesExt
ASSUME ndJsonSerialize(IOEnv.EXPORT_DIR \o "/cli.ndjson", SetToSeq(SyncInv \cup PropInv \cup GenInv))
=============================================================================
