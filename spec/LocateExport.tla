---------------------------- MODULE LocateExport ----------------------------
(* spec -> code: the (module, path) scenarios of Locate.tla as NDJSON (env EXPORT_DIR) *)
EXTENDS Locate, Json, IOUtils
Scen == { [mod |-> m, paths |-> SetToSeq(AllPaths(m) \cup Bogus)] : m \in Modules }
ASSUME ndJsonSerialize(IOEnv.EXPORT_DIR \o "/locate_" \o Size \o ".ndjson", SetToSeq(Scen))
ASSUME PrintT(<<"exported", Size, Cardinality(Modules)>>)
=============================================================================
