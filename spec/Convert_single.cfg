SPECIFICATION Spec
CONSTANTS
  Dom = "single"
  MaxHops = 3
INVARIANT TypeOK
INVARIANT ChainRefines
INVARIANT Tight
INVARIANT FixedPointConsistent
INVARIANT StyleSound
CHECK_DEADLOCK FALSE
