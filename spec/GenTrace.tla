------------------------------ MODULE GenTrace ------------------------------
(* Trace validation for Gen.tla: {"id", "cfg": Cfg, "status": "ok"|"refused"|"internal", "parses", "items": [..], "all": [names], "all_dups": BOOLEAN,   *)
(*  "iface_ok": BOOLEAN, "kind_ok": BOOLEAN, "second": "refused"|"ok"|"internal", "second_same": BOOLEAN, "first_same": BOOLEAN}                        *)
(* items = the top-level items of the generated module as Gen.tla abstracts them ("prepend" | "import" | definition name | "all" | "other").           *)
EXTENDS Gen, Json, IOUtils
Traces == IF "TRACE_FILE" \in DOMAIN IOEnv THEN ndJsonDeserialize(IOEnv.TRACE_FILE) ELSE <<>>
VARIABLES tid, l
T == Traces[tid]
C == [mapping |-> T.cfg.mapping, type |-> T.cfg.type, tpl |-> T.cfg.tpl, prepend |-> T.cfg.prepend, imports |-> T.cfg.imports, exists |-> T.cfg.exists, alias |-> T.cfg.alias]
Want == Names(C)
Pre(o) == SelectSeq(o, LAMBDA x : x \in {"prepend", "import"})
Clauses ==
  IF C.exists
    THEN << <<"RefusesExisting", T.status = "refused">>, <<"ExistingKept", T.first_same>> >>
    ELSE << <<"NeverInternal", T.status = "ok">> >>
         \o (IF T.status # "ok" THEN << >> ELSE
             << <<"Parses", T.parses>>,
                <<"OnePerEntry", T.parses => (\A n \in Range(Want) : Cardinality({i \in 1..Len(T.items) : T.items[i] = n}) = 1) /\ Len(Defs(SelectSeq(T.items, LAMBDA x : x # "other"))) = Len(Want)>>,
                <<"MappingOrder", T.parses => SelectSeq(T.items, LAMBDA x : x \in Range(Want)) = Want>>,
                <<"AllListsExactly", T.parses => (T.all = Want /\ ~T.all_dups)>>,
                \* once each, before the definitions; the relative order of prepended text and imports is not prescribed
                <<"PreambleOnceFirst", T.parses => /\ Cardinality({i \in 1..Len(T.items) : T.items[i] = "prepend"}) = (IF C.prepend THEN 1 ELSE 0)
                                                  /\ Cardinality({i \in 1..Len(T.items) : T.items[i] = "import"}) = C.imports
                                                  /\ \A i, j \in 1..Len(T.items) : (T.items[i] \in {"prepend", "import"} /\ T.items[j] \in Range(Want)) => i < j>>,
                <<"AllLast", T.parses => (Len(T.items) > 0 /\ T.items[Len(T.items)] = "all")>>,
                <<"NothingElse", T.parses => \A i \in 1..Len(T.items) : T.items[i] # "other">>,
                <<"IfaceOfSource", T.parses => T.iface_ok>>,
                <<"KindOfType", T.parses => T.kind_ok>>,
                <<"SecondRefused", T.second = "refused" /\ T.second_same>> >>)
TInit == tid \in 1..Len(Traces) /\ l = 1 /\ cfg = [type |-> "trace"] /\ out = <<>> /\ runs = 0
TStep == /\ l = 1
         /\ LET bad == SelectSeq(Clauses, LAMBDA x : ~x[2]) IN \A i \in 1..Len(bad) : PrintT(<<"F", T.id, 1, bad[i][1], "-">>)
         /\ PrintT(<<"D", T.id, 1>>)
         /\ l' = 2 /\ UNCHANGED <<tid, vars>>
TraceSpec == TInit /\ [][TStep]_<<tid, l, vars>>
=============================================================================
