----------------------------- MODULE MergeTrace -----------------------------
(***************************************************************************)
(* Trace validation for C07: what doctrans parsed from a user-written      *)
(* definition, judged against Python's own view (inspect.signature of the  *)
(* executed definition, mapped to tokens by vf/merge_check.py).            *)
(*   {"id", "exc",                                                         *)
(*    "sig": [ [n, ann, def, grp] ... ] Python's view, in order, without   *)
(*                                      self/cls; grp = "param" | "attr"   *)
(*    "doc": [ [n, typ, def] ... ]      what the docstring documents       *)
(*    "res": [ [n, typ, def, prose] ... ] doctrans' result; prose is the   *)
(*                                      name whose prose it carries, "none"*)
(*    "stable": BOOLEAN }               same result under every hash seed  *)
(* Tokens: "absent" for a missing type / default.                          *)
(***************************************************************************)
EXTENDS Naturals, Sequences, FiniteSets, TLC, Json, IOUtils, SequencesExt
Traces == IF "TRACE_FILE" \in DOMAIN IOEnv THEN ndJsonDeserialize(IOEnv.TRACE_FILE) ELSE <<>>
VARIABLES tid, l
T == Traces[tid]
NamesOf(s) == [i \in 1..Len(s) |-> s[i][1]]
Has(s, n) == \E i \in 1..Len(s) : s[i][1] = n
Get(s, n) == s[CHOOSE i \in 1..Len(s) : s[i][1] = n]
Count(s, n) == Cardinality({i \in 1..Len(s) : s[i][1] = n})
\* documented information takes precedence, the signature fills the gaps
WantTyp(n) == IF Has(T.doc, n) /\ Get(T.doc, n)[2] # "absent" THEN {Get(T.doc, n)[2]}
              ELSE IF Get(T.sig, n)[2] # "absent" THEN {Get(T.sig, n)[2]}
              ELSE {"absent", "fill"}                    \* a type inferred from the default is a fill, not an invention
WantDef(n) == IF Has(T.doc, n) /\ Get(T.doc, n)[3] # "absent" THEN {Get(T.doc, n)[3]}
              ELSE IF Get(T.sig, n)[3] # "absent" THEN {Get(T.sig, n)[3]}
              ELSE {"absent", "none"}                    \* **kwargs / N6: None for an undefaulted parameter is a fill
Clauses ==
  IF T.exc # "none" THEN << <<"NeverRaises", "-", FALSE>> >>
  ELSE
  << <<"NoExtra", "-", \A i \in 1..Len(T.res) : Has(T.sig, T.res[i][1])>>,
     \* D8: order is constrained within one source listing (the signature; the class body), not across them
     <<"SourceOrder", "-", \A g \in {"param", "attr"} :
          SelectSeq(NamesOf(T.res), LAMBDA n : Has(T.sig, n) /\ Get(T.sig, n)[4] = g)
            = SelectSeq(NamesOf(T.sig), LAMBDA n : Has(T.res, n) /\ Get(T.sig, n)[4] = g)>>,
     <<"HashIndependent", "-", T.stable>> >>
  \o FlattenSeq([i \in 1..Len(T.sig) |->
       LET n == T.sig[i][1] IN
       IF ~Has(T.res, n) THEN << <<"NoDrop", n, FALSE>> >>
       ELSE LET r == Get(T.res, n) IN
            << <<"NoDrop", n, TRUE>>,
               <<"NoDup", n, Count(T.res, n) = 1>>,
               <<"TypMerged", n, r[2] \in WantTyp(n)>>,
               <<"DefaultMerged", n, r[3] \in WantDef(n)>>,
               <<"Attribution", n, r[4] = (IF Has(T.doc, n) THEN n ELSE "none")>> >>])
TInit == tid \in 1..Len(Traces) /\ l = 1
TStep == /\ l = 1
         /\ LET bad == SelectSeq(Clauses, LAMBDA c : ~c[3]) IN \A i \in 1..Len(bad) : PrintT(<<"F", T.id, 1, bad[i][1], bad[i][2]>>)
         /\ PrintT(<<"D", T.id, 1>>)
         /\ l' = 2 /\ UNCHANGED tid
TraceSpec == TInit /\ [][TStep]_<<tid, l>>
=============================================================================
