----------------------------- MODULE SyncTrace -----------------------------
(***************************************************************************)
(* Trace validation for Sync.tla (C09, C10, C11, C20).                     *)
(* One NDJSON line per recorded history (vf/sync_check.py):                *)
(*   {"id", "truth": kind, "given": [kinds], "init": {kind: FileObs},      *)
(*    "ev": [ {"a":"sync", "exc", "fault", "post": {kind: FileObs},        *)
(*             "changed": {kind: BOOLEAN}, "report": {kind: "true"|"false" *)
(*             |"none"}, "printed": {kind: "modified"|"unchanged"|"none"}} *)
(*          | {"a":"edit", "post": {kind: FileObs}} ]}                     *)
(*   a sync event may carry its own "truth" (alternating truth kinds,      *)
(*   Sync.tla SwitchTruth); naming another truth starts a new round        *)
(*   FileObs = [st, b, d, a]  (observed with Python's ast, not doctrans)   *)
(* Every event is one step; failing clauses are printed as                 *)
(* <<"F", id, step, clause, kind>> and the state follows the observation.  *)
(***************************************************************************)
EXTENDS Naturals, Sequences, FiniteSets, TLC, Json, IOUtils, SequencesExt

KS == <<"argparse", "class", "function">>
K  == {"argparse", "class", "function"}
\* a history may have a second file of the truth's kind ("twin", Sync.tla Twin = TRUE): an ordinary target

Traces == IF "TRACE_FILE" \in DOMAIN IOEnv THEN ndJsonDeserialize(IOEnv.TRACE_FILE) ELSE <<>>
VARIABLES tid, l, cur, stable, lastTruth
tvars == <<tid, l, cur, stable, lastTruth>>
T == Traces[tid]
Files == KS \o (IF "twin" \in DOMAIN T.init THEN <<"twin">> ELSE <<>>)
Given == {T.given[i] : i \in 1..Len(T.given)}

\* the frame of a file: every statement around the named definition, in order
Frame(f) == f.b \o f.a
\* what Sync.tla's Wanted means on observations (canon is not observable; st/b/d/a are)
IsWanted(b, a, v) ==
  /\ a.st = "mod" /\ a.d = v
  /\ IF b.st = "mod" THEN (IF b.d = "absent" THEN a.b = Frame(b) /\ a.a = <<>> ELSE a.b = b.b /\ a.a = b.a)
     ELSE Frame(a) = <<>>

Cl(name, k, ok) == <<name, k, ok>>
TruthOf(e) == IF "truth" \in DOMAIN e THEN e.truth ELSE T.truth
SyncClauses(e) ==
  LET b == cur  a == e.post  tr == TruthOf(e)  v == cur[tr].d  clean == e.exc = "none" /\ e.fault = "none"
      settled == stable /\ lastTruth = tr IN
  << Cl("NoInternalError", "-", e.fault # "none" \/ e.exc = "none") >>
  \o FlattenSeq([i \in 1..Len(Files) |->
       LET k == Files[i] IN
       << Cl("TruthUntouched", k, k # tr \/ ~e.changed[k]),
          Cl("Untouched", k, k \in Given \/ ~e.changed[k]),
          Cl("StillParses", k, a[k].st # "partial"),
          Cl("FrameKept", k, (b[k].st = "mod" /\ a[k].st = "mod") => Frame(a[k]) = Frame(b[k])),
          Cl("OldOrNew", k, ~e.changed[k] \/ IsWanted(b[k], a[k], v)),
          Cl("Idempotent", k, ~settled \/ ~e.changed[k]) >>
       \o (IF clean /\ k \in Given
             THEN << Cl("Agreement", k, a[k].st = "mod" /\ a[k].d = v),
                     Cl("ReportTruthful", k, e.report[k] = (IF e.changed[k] THEN "true" ELSE "false")),
                     Cl("PrintTruthful", k, /\ (e.printed[k] = "modified" => e.changed[k])
                                            /\ (e.printed[k] = "unchanged" => ~e.changed[k])) >>
             ELSE << >>)])

TInit == /\ tid \in 1..Len(Traces) /\ l = 1 /\ cur = Traces[tid].init /\ stable = FALSE /\ lastTruth = Traces[tid].truth
Step ==
  /\ l <= Len(T.ev)
  /\ LET e == T.ev[l] IN
       IF e.a = "sync"
         THEN /\ LET bad == SelectSeq(SyncClauses(e), LAMBDA c : ~c[3]) IN
                   \A i \in 1..Len(bad) : PrintT(<<"F", T.id, l, bad[i][1], bad[i][2]>>)
              /\ cur' = e.post
              /\ stable' = (e.exc = "none" /\ e.fault = "none")
              /\ lastTruth' = TruthOf(e)
         ELSE /\ cur' = e.post /\ stable' = FALSE /\ UNCHANGED lastTruth
  /\ l' = l + 1 /\ UNCHANGED tid
Done == /\ l = Len(T.ev) + 1 /\ PrintT(<<"D", T.id, Len(T.ev)>>) /\ l' = l + 1 /\ UNCHANGED <<tid, cur, stable, lastTruth>>
TraceSpec == TInit /\ [][Step \/ Done]_tvars
=============================================================================
