---------------------------- MODULE ConvertTrace ----------------------------
(***************************************************************************)
(* Trace validation for Convert.tla.                                       *)
(*                                                                         *)
(* Input: NDJSON (env TRACE_FILE), one recorded scenario per line:         *)
(*   {"id": str, "mode": "hop" | "chain", "init": IR, "ev": [event, ...]} *)
(* Events (recorded from the real doctrans by vf/convert_driver.py):       *)
(*   emit  : {"a":"emit","kind","dd","ftype","inline","kwonly","view","exc",*)
(*            "flags":{rest,google,numpy}, "py":{...}, "digest"}           *)
(*   parse : {"a":"parse","exc","ftype","ir": IR}                         *)
(*   reset : {"a":"reset"}   -- remember the current description as the   *)
(*            reference and start again from the initial one (C18)         *)
(* Every event is one TLC step.  A step never blocks: each named clause    *)
(* that fails is printed as  <<"F", id, step, clause, slot>>  and the      *)
(* state continues from the *observed* description, so the rest of the     *)
(* trace is still checked.  <<"D", id, steps>> is printed when a trace has *)
(* been consumed completely (totality check in vf/tlc.py).                 *)
(***************************************************************************)
EXTENDS ConvertRel, Json, IOUtils

Traces == IF "TRACE_FILE" \in DOMAIN IOEnv THEN ndJsonDeserialize(IOEnv.TRACE_FILE) ELSE <<>>

VARIABLES tid,      \* which trace
          l,        \* next event
          cur,      \* current description (last observed)
          art,      \* [present, kind, dd, ftype, inline, kwonly]
          ref,      \* reference description for ConfigTransparent ("none" record until a reset)
          last,     \* [kind, dd, n, digest, stable]: run of identical consecutive hops (C08)
          path      \* <<kind, dd>> of the hops completed so far (C05)
tvars == <<tid, l, cur, art, ref, last, path>>

NoArt  == [present |-> FALSE, kind |-> "none", dd |-> FALSE, ftype |-> "static", inline |-> FALSE, kwonly |-> FALSE]
NoLast == [kind |-> "none", dd |-> FALSE, n |-> 0, digest |-> "", irn |-> 0]
NoRef  == [set |-> FALSE, ir |-> IR("one", <<>>, NoRet)]

T == Traces[tid]

\* ---- helpers ---------------------------------------------------------------
HasName(ps, n) == \E i \in 1..Len(ps) : ps[i].name = n
ByName(ps, n)  == ps[CHOOSE i \in 1..Len(ps) : ps[i].name = n]
Cl(name, slot, ok) == <<name, slot, ok>>

\* ---- parse clauses (C01-C05, C08, C18) --------------------------------------
\* a slot / return entry that an earlier (already reported) failure left in a state outside the vocabulary:
\* the hop relation says nothing about it, so it is not judged again
Corrupt(b) == b.typ = "other" \/ b.def \in {"other", "codeQ"} \/ b.dbase = "other" \/ b.dann = "diff"

SlotClauses(k, dd, b, a) ==
  IF Corrupt(b) THEN << >> ELSE
  << Cl("TypKept", b.name, a.typ \in A_Typ(k, b)),
     Cl(IF b.def = "absent" THEN "DefaultFill" ELSE "DefaultKept", b.name, a.def \in A_Def(k, dd, b)),
     Cl("ProseKept.base", b.name, a.dbase = b.dbase),
     Cl("ProseKept.stop", b.name, a.dbase # b.dbase \/ a.dstop \in A_DStop(k, dd, b, a.def)),
     Cl("ProseKept.ann", b.name, a.dbase # b.dbase \/ a.dann \in A_DAnn(k, dd, b, a.def)) >>

RetClauses(k, dd, b, a) ==
  << Cl("RetKept.present", "return", a.present \in R_Present(k, b)) >> \o
  (IF a.present /\ b.present /\ ~Corrupt(b)
     THEN << Cl("RetKept.typ", "return", a.typ \in R_Typ(k, b)),
             Cl("RetKept.def", "return", a.def \in R_Def(k, dd, b)),
             Cl("RetKept.base", "return", a.dbase = b.dbase),
             Cl("RetKept.stop", "return", a.dbase # b.dbase \/ a.dstop \in A_DStop(k, dd, b, a.def)),
             Cl("RetKept.ann", "return", a.dbase # b.dbase \/ a.dann \in A_DAnn(k, dd, b, a.def)) >>
     ELSE << >>)

\* C05 ("chain" scenarios): the description after every hop is compared with the *original* one, with the kinds on the
\* path deciding what may have been filled or lost (ChainRefines of Convert.tla, clause by clause)
ChainClauses(e) ==
  IF e.exc # "none" THEN << Cl("NeverRaises", "-", FALSE) >>
  ELSE
    LET a == e.ir  o == T.init  p == Append(path, <<art.kind, art.dd>>) IN
      << Cl("NeverRaises", "-", TRUE),
         Cl("Chain.Summary", "-", a.doc = o.doc),
         Cl("Chain.NamesOrder", "-", LET common(x, y) == SelectSeq(Names(x), LAMBDA n : HasName(y.params, n))
                                     IN  common(a, o) = common(o, a)),
         Cl("Chain.NoExtraNames", "-", \A i \in 1..Len(a.params) : HasName(o.params, a.params[i].name)) >>
      \o FlattenSeq([i \in 1..Len(o.params) |->
            LET s == o.params[i] IN
            IF HasName(a.params, s.name)
              THEN LET c == ByName(a.params, s.name) IN
                   << Cl("Chain.NamePresent", s.name, TRUE),
                      Cl("Chain.Typ", s.name, c.typ \in ChainTyps(p, s)),
                      Cl("Chain.Def", s.name, c.def \in ChainDefs(p, s)),
                      Cl("Chain.Prose", s.name, c.dbase = s.dbase /\ c.dann # "diff") >>
              ELSE << Cl("Chain.NamePresent", s.name, FALSE) >>])
      \o << Cl("Chain.Ret", "return", RetRefines(p, o.ret, a.ret)) >>
      \* the hop-level rule about an explicit None after an option with a default depends only on the description that
      \* entered this hop (`cur`): it holds inside a chain as well
      \o (IF art.kind # "argparse" THEN << >> ELSE
          FlattenSeq([i \in 1..Len(cur.params) |->
            IF cur.params[i].def = "none" /\ ~IsKw(cur.params[i]) /\ ~Corrupt(cur.params[i]) /\ PriorDefault(cur.params, i)
               /\ HasName(a.params, cur.params[i].name)
              THEN << Cl("NoneRecovered", cur.params[i].name, ByName(a.params, cur.params[i].name).def = "none") >> ELSE << >>]))

ParseClauses(e) ==
  IF T.mode = "chain" THEN ChainClauses(e)
  ELSE IF e.exc # "none" THEN << Cl("NeverRaises", "-", FALSE) >>
  ELSE
    LET a == e.ir  b == cur  k == art.kind  dd == art.dd IN
      << Cl("NeverRaises", "-", TRUE),
         Cl("SummaryKept", "-", a.doc = b.doc),
         Cl("NamesOrder", "-", LET common(x, y) == SelectSeq(Names(x), LAMBDA n : HasName(y.params, n))
                                IN  common(a, b) = common(b, a)),
         Cl("NoExtraNames", "-", \A i \in 1..Len(a.params) : HasName(b.params, a.params[i].name)),
         Cl("FuncKindKept", "-", k \notin FunKind \/ e.ftype = art.ftype) >>
      \o FlattenSeq([i \in 1..Len(b.params) |->
            IF HasName(a.params, b.params[i].name)
              THEN << Cl("NamePresent", b.params[i].name, TRUE) >>
                   \o SlotClauses(k, dd, b.params[i], ByName(a.params, b.params[i].name))
                   \o (IF k = "argparse" /\ b.params[i].def = "none" /\ ~IsKw(b.params[i]) /\ ~Corrupt(b.params[i]) /\ PriorDefault(b.params, i)
                         THEN << Cl("NoneRecovered", b.params[i].name, ByName(a.params, b.params[i].name).def = "none") >> ELSE << >>)
              ELSE << Cl("NamePresent", b.params[i].name, FALSE) >>])
      \o RetClauses(k, dd, b.ret, a.ret)
      \o (IF last.kind = k /\ last.dd = dd /\ last.irn >= 2     \* third and later passes: parse(t3) = parse(t2)
            THEN << Cl("IrStable", "-", a = b) >> ELSE << >>)
      \o (IF ref.set THEN << Cl("ConfigTransparent", "-", a = ref.ir) >> ELSE << >>)

\* ---- emit clauses (C06 Denotes, C01 StyleDetected, C08 TextStable) -----------
ClassClauses(e) ==
  LET at == e.py.attrs
      want == Names(cur) \o (IF cur.ret.present THEN <<"return_type">> ELSE << >>) IN
  << Cl("Denotes.AttrNames", "-", [i \in 1..Len(at) |-> at[i].name] = want) >>
  \o FlattenSeq([i \in 1..Len(cur.params) |->
        LET s == cur.params[i] IN
        IF HasName(at, s.name)
          THEN << Cl("Denotes.AttrAnn", s.name, ByName(at, s.name).ann \in C_Ann(s)),
                  Cl("Denotes.AttrVal", s.name, ByName(at, s.name).val \in C_Val(s)) >>
          ELSE << >>])
  \o (IF cur.ret.present /\ HasName(at, "return_type")
        THEN << Cl("Denotes.AttrAnn", "return", ByName(at, "return_type").ann \in C_RetAnn(cur.ret)),
                Cl("Denotes.AttrVal", "return", ByName(at, "return_type").val \in C_RetVal(cur.ret)) >>
        ELSE << >>)

FunClauses(e) ==
  LET ps == e.py.params IN
  << Cl("Denotes.SigNames", "-", [i \in 1..Len(ps) |-> ps[i].name] = Names(cur)),
     Cl("Denotes.First", "-", e.py.first = F_First(e.ftype)),
     Cl("Denotes.RetAnn", "return", e.py.retann \in F_RetAnn(e.inline, cur.ret)),
     Cl("Denotes.RetExpr", "return", e.py.retexpr = F_RetExpr(cur.ret)) >>
  \o FlattenSeq([i \in 1..Len(cur.params) |->
        LET s == cur.params[i] IN
        IF HasName(ps, s.name)
          THEN << Cl("Denotes.SigKind", s.name, ByName(ps, s.name).pk = F_Kind(e.kwonly, s)),
                  Cl("Denotes.SigAnn", s.name, ByName(ps, s.name).ann \in F_Ann(e.inline, s)),
                  Cl("Denotes.SigDef", s.name, ByName(ps, s.name).def \in F_Def(s)) >>
          ELSE << >>])

ArgClauses(e) ==
  LET os == e.py.options IN
  << Cl("Denotes.OptNames", "-", [i \in 1..Len(os) |-> os[i].name] = Names(cur)),
     Cl("Denotes.Description", "-", e.py.desc = cur.doc),
     Cl("Denotes.RetExpr", "return", e.py.retexpr = F_RetExpr(cur.ret)) >>
  \o FlattenSeq([i \in 1..Len(cur.params) |->
        LET s == cur.params[i] IN
        IF HasName(os, s.name)
          THEN LET o == ByName(os, s.name) IN
               << Cl("Denotes.OptType", s.name, o.type \in O_Type(s)),
                  Cl("Denotes.OptChoices", s.name, o.choices = O_Choices(s) /\ o.choices_ok),
                  Cl("Denotes.OptAppend", s.name, o.append = O_Append(s)),
                  Cl("Denotes.OptRequired", s.name, o.required \in O_Required(s)),
                  Cl("Denotes.OptDefault", s.name, o.def \in O_Def(s)),
                  Cl("Denotes.OptHelp", s.name,
                       /\ o.dbase = s.dbase
                       /\ o.dstop \in A_DStop("argparse", e.dd, s, o.def)
                       /\ o.dann \in A_DAnn("argparse", e.dd, s, o.def)) >>
          ELSE << >>])

EmitClauses(e) ==
  IF e.exc # "none" THEN << Cl("EmitNeverRaises", "-", FALSE) >>
  ELSE
    << Cl("EmitNeverRaises", "-", TRUE) >>
    \o (IF e.kind \in DocKind
          THEN << Cl("StyleDetected", "-",
                     ~HasEntries(cur) \/ (e.flags = EmitFlags(e.kind, cur) /\ Detect(e.flags) = e.kind)) >>
          ELSE IF ~e.view THEN << >>
          ELSE << Cl("Denotes.Compiles", "-", e.py.compiles),
                  Cl("Denotes.ReparseSame", "-", e.py.reparse),
                  Cl("Denotes.FileSame", "-", e.py.file_black /\ e.py.file_plain),
                  Cl("Denotes.Executes", "-", e.py.executes) >>
               \o (IF ~e.py.executes THEN << >>
                   ELSE IF e.kind = "class" THEN ClassClauses(e)
                   ELSE IF e.kind \in FunKind THEN FunClauses(e)
                   ELSE ArgClauses(e)))
    \o (IF last.kind = e.kind /\ last.dd = e.dd /\ last.n >= 2
          THEN << Cl("TextStable", "-", e.digest = last.digest) >> ELSE << >>)

\* ---- the trace machine -------------------------------------------------------
Report(cs) ==
  LET bad == SelectSeq(cs, LAMBDA c : ~c[3]) IN
    \A i \in 1..Len(bad) : PrintT(<<"F", T.id, l, bad[i][1], bad[i][2]>>)

Init == /\ tid \in 1..Len(Traces)
        /\ l = 1
        /\ cur = Traces[tid].init
        /\ art = NoArt
        /\ ref = NoRef
        /\ last = NoLast
        /\ path = << >>

StepEmit(e) ==
  /\ e.a = "emit"
  /\ Report(EmitClauses(e))
  /\ art' = [present |-> e.exc = "none", kind |-> e.kind, dd |-> e.dd, ftype |-> e.ftype,
             inline |-> e.inline, kwonly |-> e.kwonly]
  /\ last' = IF last.kind = e.kind /\ last.dd = e.dd
               THEN [last EXCEPT !.n = @ + 1, !.digest = e.digest]
               ELSE [kind |-> e.kind, dd |-> e.dd, n |-> 1, digest |-> e.digest, irn |-> 0]
  /\ UNCHANGED <<cur, ref, path>>

StepParse(e) ==
  /\ e.a = "parse"
  /\ Report(ParseClauses(e))
  /\ cur' = IF e.exc = "none" THEN e.ir ELSE cur
  /\ art' = NoArt
  /\ last' = [last EXCEPT !.irn = @ + 1]
  /\ path' = Append(path, <<art.kind, art.dd>>)
  /\ UNCHANGED ref

StepReset(e) ==
  /\ e.a = "reset"
  \* the reference is what the *preceding parse* returned; when that parse raised (reported there) there is nothing to compare with
  /\ ref' = [set |-> (l > 1 /\ T.ev[l - 1].a = "parse" /\ T.ev[l - 1].exc = "none"), ir |-> cur]
  /\ cur' = T.init
  /\ art' = NoArt
  /\ last' = NoLast
  /\ path' = << >>

Step == /\ l <= Len(T.ev)
        /\ LET e == T.ev[l] IN StepEmit(e) \/ StepParse(e) \/ StepReset(e)
        /\ l' = l + 1
        /\ UNCHANGED tid

Done == /\ l = Len(T.ev) + 1
        /\ PrintT(<<"D", T.id, Len(T.ev)>>)
        /\ l' = l + 1
        /\ UNCHANGED <<tid, cur, art, ref, last, path>>

Next == Step \/ Done
TraceSpec == Init /\ [][Next]_tvars

\* state invariants evaluated in every state of every recorded execution
TraceTypeOK == WellFormedIR(cur) \/ TRUE
=============================================================================
