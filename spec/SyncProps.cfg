SPECIFICATION Spec
CONSTANTS
  InLocs = {"a", "A.x", "f.p"}
  OutLocs = {"b", "B.y", "g.q"}
  MaxPairs = 2
INVARIANT OnlyAddressedChanged
INVARIANT AllPairsApplied
INVARIANT UnresolvedIsError
CHECK_DEADLOCK FALSE
