SPECIFICATION Spec
INVARIANT OnePerEntryInOrder
INVARIANT Layout
INVARIANT KeyNamesDefinition
INVARIANT ExistingKept
PROPERTY RefusesExisting
CHECK_DEADLOCK FALSE
