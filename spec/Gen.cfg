SPECIFICATION Spec
INVARIANT OnePerEntryInOrder
INVARIANT Layout
INVARIANT ExistingKept
PROPERTY RefusesExisting
CHECK_DEADLOCK FALSE
