---------------------------- MODULE SharingTrace ----------------------------
(* Trace validation for Sharing.tla (C13).  NDJSON line (vf/sharing_check.py):                               *)
(*   {"id", "ev": [ {"op", "exc", "same": BOOLEAN, "taints": [taint names]} ]}                                *)
(* same  = the output of this call equals the output of the same call on a fresh deep copy (two real runs)     *)
(* taints = how the shared object differs from the pristine one after the call (alpha of the shared object)   *)
EXTENDS Sharing, Json, IOUtils, SequencesExt
Traces == IF "TRACE_FILE" \in DOMAIN IOEnv THEN ndJsonDeserialize(IOEnv.TRACE_FILE) ELSE <<>>
VARIABLES tid, l
T == Traces[tid]
TaintSet(e) == {e.taints[i] : i \in 1..Len(e.taints)}
Clauses(e) ==
  << <<"NeverRaises", e.exc = "none">>,
     <<"SameAsFresh", e.exc # "none" \/ e.same>>,
     <<"Unmodified", TaintSet(e) = {}>>,
     <<"ObsEquiv", \A op \in Ops : Out(op, TaintSet(e) \cap Taints) = Out(op, {})>> >>
TInit == tid \in 1..Len(Traces) /\ l = 1 /\ shared = {} /\ hist = <<>> /\ lastOut = <<"none", {}>>
TStep == /\ l <= Len(T.ev)
         /\ LET bad == SelectSeq(Clauses(T.ev[l]), LAMBDA c : ~c[2]) IN \A i \in 1..Len(bad) : PrintT(<<"F", T.id, l, bad[i][1], T.ev[l].op>>)
         /\ l' = l + 1 /\ UNCHANGED <<tid, vars>>
TDone == l = Len(T.ev) + 1 /\ PrintT(<<"D", T.id, Len(T.ev)>>) /\ l' = l + 1 /\ UNCHANGED <<tid, vars>>
TraceSpec == TInit /\ [][TStep \/ TDone]_<<tid, l, vars>>
=============================================================================
