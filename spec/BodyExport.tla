----------------------------- MODULE BodyExport -----------------------------
EXTENDS Body, Json, IOUtils
ASSUME ndJsonSerialize(IOEnv.EXPORT_DIR \o "/body.ndjson", SetToSeq({[kind |-> "function", body |-> b] : b \in FnBodies} \cup {[kind |-> "argparse", body |-> b] : b \in ArgBodies}))
=============================================================================
