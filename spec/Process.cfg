SPECIFICATION Spec
CONSTANTS
  Procs = {"p1", "p2"}
  OpsC = {"parse", "emit"}
  Inputs = {"i1", "i2"}
  Outputs = {"a", "b"}
  MaxCalls = 6
INVARIANT TypeOK
PROPERTY Functional
CHECK_DEADLOCK FALSE
