----------------------------- MODULE SyncProps -----------------------------
(***************************************************************************)
(* C14: sync_properties changes exactly the addressed property.            *)
(*                                                                         *)
(* The input and the output module are maps from locations (qualified      *)
(* paths, see Locate.tla) to the property found there, [name, ann]; "none" *)
(* = no annotation.  A call applies 1..3 (input location, output location) *)
(* pairs in order and then writes the output once.                         *)
(*   plain mode  out[o] := [name of the input property, Wrap(its ann)]     *)
(*   eval mode   out[o] := [name kept, Literal of the evaluated values]    *)
(* A location that does not resolve (on either side) is an error and the   *)
(* output file is left as it was.                                          *)
(***************************************************************************)
EXTENDS Naturals, Sequences, FiniteSets, TLC, SequencesExt

CONSTANTS InLocs, OutLocs, MaxPairs
Bogus == "nowhere.x"
Ann == {"none", "int", "str", "float"}
Wrap(wrap, a) == IF wrap /\ a # "none" THEN "W:" \o a ELSE a       \* an absent annotation cannot be wrapped

VARIABLES inp, out0, out, pairs, done, wrap, err
vars == <<inp, out0, out, pairs, done, wrap, err>>
Prop(n, a) == [name |-> n, ann |-> a]

Init == /\ inp \in [InLocs -> {Prop(n, a) : n \in {"i1", "i2"}, a \in Ann}]
        /\ out0 \in [OutLocs -> {Prop(n, a) : n \in {"o1"}, a \in {"none", "int"}}]
        /\ out = out0
        /\ pairs \in UNION {[1..k -> (InLocs \cup {Bogus}) \X (OutLocs \cup {Bogus})] : k \in 1..MaxPairs}
        /\ done = 0 /\ wrap \in BOOLEAN /\ err = FALSE

Resolvable(p) == p[1] \in InLocs /\ p[2] \in OutLocs
ApplyPair == /\ ~err /\ done < Len(pairs)
             /\ LET p == pairs[done + 1] IN
                  IF Resolvable(p)
                    THEN /\ out' = [out EXCEPT ![p[2]] = Prop(inp[p[1]].name, Wrap(wrap, inp[p[1]].ann))]
                         /\ err' = FALSE
                    ELSE /\ out' = out0 /\ err' = TRUE          \* reported, nothing written
             /\ done' = done + 1
             /\ UNCHANGED <<inp, out0, pairs, wrap>>
Spec == Init /\ [][ApplyPair]_vars

Finished == err \/ done = Len(pairs)
Addressed == {pairs[i][2] : i \in 1..Len(pairs)}
\* every other node of the output is untouched
OnlyAddressedChanged == \A l \in OutLocs \ Addressed : out[l] = out0[l]
\* every pair was applied (the last writer of a location wins)
AllPairsApplied == (Finished /\ ~err) =>
  \A l \in Addressed \cap OutLocs :
    LET last == CHOOSE i \in 1..Len(pairs) : pairs[i][2] = l /\ \A j \in (i + 1)..Len(pairs) : pairs[j][2] # l
    IN out[l] = Prop(inp[pairs[last][1]].name, Wrap(wrap, inp[pairs[last][1]].ann))
\* an address that does not resolve is an error and nothing changes
UnresolvedIsError == (\E i \in 1..done : ~Resolvable(pairs[i])) => (err /\ out = out0)
=============================================================================
