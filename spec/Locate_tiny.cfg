SPECIFICATION Spec
CONSTANTS
  Size = "tiny"
INVARIANT DomainWellFormed
INVARIANT Unique
INVARIANT AlgEqualsSpec
INVARIANT ReplaceExact
CHECK_DEADLOCK FALSE
