SPECIFICATION Spec
CONSTANTS
  Size = "tiny"
CHECK_DEADLOCK FALSE
