SPECIFICATION Spec
CONSTANTS
  Rules = "positional"
  MaxLen = 4
  Shared = FALSE
INVARIANT Verbatim
INVARIANT ReturnOnce
INVARIANT HeldIntact
CHECK_DEADLOCK FALSE
