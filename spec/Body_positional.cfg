SPECIFICATION Spec
CONSTANTS
  Rules = "positional"
  MaxLen = 4
INVARIANT Verbatim
INVARIANT ReturnOnce
CHECK_DEADLOCK FALSE
