-------------------------------- MODULE Gen --------------------------------
(***************************************************************************)
(* C19: gen writes one well-formed, correctly named definition per mapping *)
(* entry.                                                                  *)
(*                                                                         *)
(* A run is configured by the mapping (a sequence of distinct entry names, *)
(* each a class with __init__ or a function; with `alias` the mapping key  *)
(* differs from the name the object was defined under, and it is the key   *)
(* that names the definition), the output type, the name                   *)
(* template, whether text is prepended, how many import lines the          *)
(* imports-file has, and whether the output file already exists.  The      *)
(* output module is abstracted to the sequence of its top-level items:     *)
(*   "prepend" | "import" | <<"def", name>> | "all"                        *)
(* Expected(cfg) is what the property states; a second invocation on the   *)
(* same output must be refused and leave the file alone.                   *)
(***************************************************************************)
EXTENDS Naturals, Sequences, FiniteSets, TLC, SequencesExt

\* "Fob" is a twin of "Foo": the same docstring text (class and __init__), another signature
EntryNames == {"Foo", "bar", "Baz", "qux", "Fob"}
Tpl == {"suffix", "prefix"}                      \* "{name}Config" | "Cfg{name}"
Templated(t, n) == IF t = "suffix" THEN n \o "Config" ELSE "Cfg" \o n
Types == {"class", "function", "argparse"}

Cfg == [mapping : {s \in UNION {[1..k -> EntryNames] : k \in 1..3} : \A i, j \in 1..Len(s) : i # j => s[i] # s[j]},
        type : Types, tpl : Tpl, prepend : BOOLEAN, imports : 0..2, exists : BOOLEAN, alias : BOOLEAN]
\* the mapping key of entry n: its own name, or a key that differs from the object's __name__
Key(c, n) == IF c.alias THEN "My" \o n ELSE n
Names(c) == [i \in 1..Len(c.mapping) |-> Templated(c.tpl, Key(c, c.mapping[i]))]

Rep(x, n) == [i \in 1..n |-> x]
Expected(c) ==
  IF c.exists THEN <<"refused">>
  ELSE (IF c.prepend THEN <<"prepend">> ELSE <<>>)
       \o Rep("import", c.imports)
       \o Names(c)
       \o <<"all">>

VARIABLES cfg, out, runs
vars == <<cfg, out, runs>>
Init == cfg \in Cfg /\ out = (IF cfg.exists THEN <<"old">> ELSE <<>>) /\ runs = 0
Run == /\ runs < 2
       /\ out' = IF out = <<>> THEN Expected([cfg EXCEPT !.exists = FALSE]) ELSE out       \* an existing file is never touched
       /\ runs' = runs + 1
       /\ UNCHANGED cfg
Spec == Init /\ [][Run]_vars

Defs(o) == SelectSeq(o, LAMBDA x : x \notin {"prepend", "import", "all", "old", "refused"})
\* exactly one definition per entry, named by the template, in mapping order
OnePerEntryInOrder == (runs > 0 /\ ~cfg.exists) => Defs(out) = Names(cfg)
\* the definition of an entry is named after its key, not after the object it describes
KeyNamesDefinition == (runs > 0 /\ ~cfg.exists /\ cfg.alias) =>
  \A i \in 1..Len(cfg.mapping) : Templated(cfg.tpl, cfg.mapping[i]) \notin Range(Defs(out))
\* prepended text and imports once, before the definitions; __all__ last
Layout == (runs > 0 /\ ~cfg.exists) =>
  /\ out[Len(out)] = "all"
  /\ \A i, j \in 1..Len(out) : (out[i] \in {"prepend", "import"} /\ out[j] \notin {"prepend", "import"}) => i < j
  /\ Cardinality({i \in 1..Len(out) : out[i] = "prepend"}) = (IF cfg.prepend THEN 1 ELSE 0)
\* the second invocation changes nothing; an existing output is never touched
RefusesExisting == [][runs >= 1 => out' = out]_vars
ExistingKept == cfg.exists => out = <<"old">>
=============================================================================
