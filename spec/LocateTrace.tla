---------------------------- MODULE LocateTrace ----------------------------
(***************************************************************************)
(* Trace validation for Locate.tla.  One NDJSON line per lookup recorded   *)
(* from the real find_in_ast / RewriteAtQuery (vf/locate_check.py):        *)
(*   {"id", "mod": module, "path": [names],                               *)
(*    "fexc": "none"|Exc, "found": address ([0] = nothing),               *)
(*    "rexc": "none"|Exc, "changed": [addresses], "replaced": BOOLEAN}    *)
(* Addresses are computed by an independent walk over `ast`.               *)
(* Failing clauses are printed as <<"F", id, 1, clause, "-">>.             *)
(***************************************************************************)
EXTENDS Locate, Json, IOUtils

Traces == IF "TRACE_FILE" \in DOMAIN IOEnv THEN ndJsonDeserialize(IOEnv.TRACE_FILE) ELSE <<>>
VARIABLES tid, l
tvars == <<tid, l, mod, path, cursor, addr, seg, res, pc>>
T == Traces[tid]

Clauses ==
  LET want == ResolveOne(T.mod, T.path) IN
  << <<"FindNeverRaises", T.fexc = "none">>,
     <<"FindExact", T.fexc # "none" \/ T.found = want>>,
     <<"ReplaceNeverRaises", T.rexc = "none">>,
     <<"ReplaceExact", T.rexc # "none" \/ {T.changed[i] : i \in 1..Len(T.changed)} = Resolve(T.mod, T.path)>>,
     <<"ReplacedFlag", T.rexc # "none" \/ T.replaced = (want # None)>> >>

TInit == /\ tid \in 1..Len(Traces) /\ l = 1
         /\ mod = <<>> /\ path = <<>> /\ cursor = <<>> /\ addr = <<>> /\ seg = 0 /\ res = None /\ pc = "trace"
TStep == /\ l = 1
         /\ LET bad == SelectSeq(Clauses, LAMBDA c : ~c[2]) IN
              \A i \in 1..Len(bad) : PrintT(<<"F", T.id, 1, bad[i][1], "-">>)
         /\ PrintT(<<"D", T.id, 1>>)
         /\ l' = 2 /\ UNCHANGED <<tid, vars>>
TraceSpec == TInit /\ [][TStep]_tvars
=============================================================================
