SPECIFICATION TraceSpec
CONSTANTS
  Size = "tiny"
CHECK_DEADLOCK FALSE
