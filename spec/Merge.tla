------------------------------- MODULE Merge -------------------------------
(***************************************************************************)
(* C07 / C12: merging what a docstring says with what the signature says.  *)
(*                                                                         *)
(* sig : sequence of [n, def] in source order ("d" = has a default)        *)
(* doc : sequence of names the docstring documents (any subset of the      *)
(*       signature's names, any order, plus possibly a name that is not a  *)
(*       parameter)                                                        *)
(* The algorithm is modelled step by step like ir_merge / parse.function:  *)
(*   Pad     align the signature's defaults with its arguments             *)
(*   Take    start from the documented entries, fill gaps from the         *)
(*           signature                                                      *)
(*   Append1 add one signature-only name (the order in which they are      *)
(*           taken is the schedule: a Python set has none)                 *)
(*   Order   put the result in source order                                *)
(* Constants select the design: MissingOrder "set" | "signature",          *)
(* Reorder TRUE | FALSE, PadFromFront TRUE (the old padding) | FALSE.      *)
(* The invariants are C07's clauses; Deterministic is checked by exploring *)
(* every schedule (all results of one input must be equal).                *)
(***************************************************************************)
EXTENDS Naturals, Sequences, FiniteSets, TLC, SequencesExt

CONSTANTS MissingOrder, Reorder, PadFromFront, DocExtras

Names == {"a", "b", "c"}
\* DocExtras: names that are documented but are not parameters (keys forwarded through **kwargs, stale entries)
Perms(S) == {s \in [1..Cardinality(S) -> S] : \A i, j \in 1..Cardinality(S) : i # j => s[i] # s[j]}
Sigs == {[i \in 1..3 |-> [n |-> p[i], def |-> d[i]]] : p \in Perms(Names), d \in [1..3 -> {"absent", "d"}]}
ValidSig(s) == \A i \in 1..2 : s[i].def = "d" => s[i + 1].def = "d"       \* Python: defaults only on a suffix
\* C07's quantifier: the docstring documents all, some or none of the *parameters*, in or out of signature order
\* (DocExtras = {}).  A documented name that is not a parameter is outside it; Place below keeps such a name next to its
\* docstring neighbour, which TLC shows is not enough for SourceOrder when the docstring is also out of order.  C12
\* (determinism) quantifies over every definition, so Merge_extras.cfg adds two such names and drops SourceOrder.
Docs == UNION {Perms(S) : S \in SUBSET (Names \cup DocExtras)}

VARIABLES sig, doc, result, todo, pc, defaults
vars == <<sig, doc, result, todo, pc, defaults>>
SigNames == {sig[i].n : i \in 1..3}
Idx(n) == CHOOSE i \in 1..3 : sig[i].n = n
InSig(n) == n \in SigNames

Init == /\ sig \in {s \in Sigs : ValidSig(s)} /\ doc \in Docs
        /\ result = <<>> /\ todo = {} /\ pc = "pad" /\ defaults = <<>>

Trailing == SelectSeq([i \in 1..3 |-> sig[i].def], LAMBDA x : x = "d")
Pad == /\ pc = "pad"
       /\ defaults' = IF Len(Trailing) = 3 THEN Trailing
                      ELSE IF PadFromFront
                        THEN SubSeq([i \in 1..10 |-> "absent"] \o Trailing, 1, 3)      \* ten Nones in front, indexed from 0
                        ELSE [i \in 1..(3 - Len(Trailing)) |-> "absent"] \o Trailing
       /\ pc' = "take" /\ UNCHANGED <<sig, doc, result, todo>>
Take == /\ pc = "take"
        /\ result' = [i \in 1..Len(doc) |->
                        [n |-> doc[i], def |-> IF InSig(doc[i]) THEN defaults[Idx(doc[i])] ELSE "absent", src |-> "doc"]]
        /\ todo' = SigNames \ Range(doc)
        /\ pc' = "append" /\ UNCHANGED <<sig, doc, defaults>>
Append1 == /\ pc = "append" /\ todo # {}
           /\ \E n \in todo :
                /\ (MissingOrder = "signature" => \A m \in todo : Idx(n) <= Idx(m))
                /\ result' = Append(result, [n |-> n, def |-> defaults[Idx(n)], src |-> "sig"])
                /\ todo' = todo \ {n}
           /\ UNCHANGED <<sig, doc, pc, defaults>>
\* source order: the signature orders the names it knows; a documented non-parameter stays ahead of the first
\* parameter that followed it in the docstring
RECURSIVE Place(_, _)
Place(sigOrder, extras) ==
  IF sigOrder = <<>> THEN extras
  ELSE LET h == Head(sigOrder)
           before == SelectSeq(extras, LAMBDA x :
                        \E i \in 1..Len(doc) : doc[i] = x.n /\
                           (\E j \in (i + 1)..Len(doc) : doc[j] = h /\ \A m \in (i + 1)..(j - 1) : ~InSig(doc[m])))
           rest == SelectSeq(extras, LAMBDA x : \A k \in 1..Len(before) : before[k] # x)
       IN before \o <<CHOOSE r \in Range(result) : r.n = h>> \o Place(Tail(sigOrder), rest)
\* the documented non-parameters that no parameter follows in the docstring go last: `Place` leaves them in docstring order;
\* taking them out of a set instead (MissingOrder = "set") puts them in any order
Leftover(extras) == SelectSeq(extras, LAMBDA x : \E i \in 1..Len(doc) : doc[i] = x.n /\ \A j \in (i + 1)..Len(doc) : ~InSig(doc[j]))
Order == /\ pc = "append" /\ todo = {}
         /\ IF Reorder
              THEN LET extras == SelectSeq(result, LAMBDA r : ~InSig(r.n))
                       placed == Place([i \in 1..3 |-> sig[i].n], extras)
                       left   == Leftover(extras)
                       head   == SubSeq(placed, 1, Len(placed) - Len(left))
                   IN \E t \in (IF MissingOrder = "signature" THEN {left} ELSE Perms(Range(left))) : result' = head \o t
              ELSE result' = result
         /\ pc' = "done" /\ UNCHANGED <<sig, doc, todo, defaults>>
Next == Pad \/ Take \/ Append1 \/ Order
Spec == Init /\ [][Next]_vars

\* ---- what C07 demands of the result -------------------------------------------------
Done == pc = "done"
ResNames == [i \in 1..Len(result) |-> result[i].n]
Pos(seq, n) == CHOOSE i \in 1..Len(seq) : seq[i] = n
InDoc(n) == n \in Range(doc)
\* exactly the parameters Python sees (plus whatever else the docstring documents), each once
NoDropNoDup == Done => /\ SigNames \subseteq Range(ResNames)
                       /\ Range(ResNames) = SigNames \cup Range(doc)
                       /\ Len(result) = Cardinality(Range(ResNames))
\* the signature's defaults, attached to the right parameter
SigDefaults == Done => \A i \in 1..Len(result) : InSig(result[i].n) => result[i].def = sig[Idx(result[i].n)].def
\* D8: if every source listing that mentions both x and y puts x first, so does the result
AgreeBefore(x, y) ==
  LET sigSays == InSig(x) /\ InSig(y)  docSays == InDoc(x) /\ InDoc(y) IN
  /\ (sigSays \/ docSays)
  /\ (sigSays => Idx(x) < Idx(y))
  /\ (docSays => Pos(doc, x) < Pos(doc, y))
SourceOrder == Done => \A x, y \in Range(ResNames) : (x # y /\ AgreeBefore(x, y)) => Pos(ResNames, x) < Pos(ResNames, y)
\* C12: the result does not depend on the schedule (checked over all schedules of one input by TLC exploring them all):
\* in the done state the order of signature-only names must be the signature's
\* and the order of the documented non-parameters that go last must be the docstring's
TrailingExtra(n) == n \in Range(doc) \ SigNames /\ \A j \in (Pos(doc, n) + 1)..Len(doc) : ~InSig(doc[j])
Deterministic == Done => /\ \A x, y \in SigNames \ Range(doc) : Idx(x) < Idx(y) => Pos(ResNames, x) < Pos(ResNames, y)
                         /\ \A x, y \in Range(doc) : (TrailingExtra(x) /\ TrailingExtra(y) /\ Pos(doc, x) < Pos(doc, y))
                                                         => Pos(ResNames, x) < Pos(ResNames, y)
=============================================================================
