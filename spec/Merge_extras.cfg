SPECIFICATION Spec
CONSTANTS
  MissingOrder = "signature"
  Reorder = TRUE
  PadFromFront = FALSE
  DocExtras = {"yy", "zz"}
INVARIANT NoDropNoDup
INVARIANT SigDefaults
INVARIANT Deterministic
CHECK_DEADLOCK FALSE
