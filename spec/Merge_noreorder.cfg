SPECIFICATION Spec
CONSTANTS
  MissingOrder = "signature"
  Reorder = FALSE
  PadFromFront = FALSE
INVARIANT NoDropNoDup
INVARIANT SigDefaults
INVARIANT SourceOrder
INVARIANT Deterministic
CHECK_DEADLOCK FALSE
