SPECIFICATION TraceSpec
CONSTANTS
  InPlace = FALSE
  MaxLen = 4
CHECK_DEADLOCK FALSE
