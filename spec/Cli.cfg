SPECIFICATION Spec
INVARIANT Disjoint
INVARIANT RejectedFrame
INVARIANT NeverInternal
CHECK_DEADLOCK FALSE
