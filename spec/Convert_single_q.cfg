SPECIFICATION Spec
CONSTANTS
  Dom = "single"
  MaxHops = 2
INVARIANT TypeOK
INVARIANT ChainRefines
INVARIANT Tight
INVARIANT FixedPointConsistent
INVARIANT StyleSound
CHECK_DEADLOCK FALSE
