--------------------------- MODULE ConvertExport ---------------------------
(***************************************************************************)
(* spec -> code: writes the input domains of Convert.tla as NDJSON so that *)
(* the drivers realise exactly the descriptions TLC explores.              *)
(*   env EXPORT_DIR: directory receiving  ir_<Dom>.ndjson, slots.ndjson,   *)
(*   kwslots.ndjson, rets.ndjson                                           *)
(***************************************************************************)
EXTENDS Convert, Json, IOUtils

Dir == IOEnv.EXPORT_DIR
ASSUME ndJsonSerialize(Dir \o "/ir_" \o Dom \o ".ndjson", SetToSeq(Domain))
ASSUME ndJsonSerialize(Dir \o "/slots.ndjson", SetToSeq(SingleSlots))
ASSUME ndJsonSerialize(Dir \o "/kwslots.ndjson", SetToSeq(KwSlots))
ASSUME ndJsonSerialize(Dir \o "/rets.ndjson", SetToSeq({x \in InRets : GoodRet(x)}))
ASSUME PrintT(<<"exported", Dom, Cardinality(Domain)>>)
=============================================================================
