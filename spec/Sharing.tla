------------------------------ MODULE Sharing ------------------------------
(***************************************************************************)
(* C13: conversions do not interfere through shared inputs.                *)
(*                                                                         *)
(* One interface description (or one syntax tree) is handed to a sequence  *)
(* of calls.  The shared object is abstracted to the set of *taints* a     *)
(* call may have left on it:                                               *)
(*   retMoved     the return entry was moved into the parameters           *)
(*   docDefaults  `Defaults to` sentences were written into the prose      *)
(*   noneNorm     None-defaults were rewritten from the IR constant        *)
(*   typAny       missing types / prose were filled in ("Any", "")         *)
(*   bodyRenamed  names in the carried body were rewritten to self.<name>  *)
(* Effect(op) is the write set of a call, Reads(op) the taints its output  *)
(* depends on.  With InPlace = FALSE (every call works on a copy) the      *)
(* shared object never changes and NonInterference holds for every         *)
(* sequence; with InPlace = TRUE (the write sets measured on the original  *)
(* emitters) TLC returns a two-call counterexample.                        *)
(***************************************************************************)
EXTENDS Naturals, Sequences, FiniteSets, TLC

CONSTANTS InPlace, MaxLen

Ops    == {"class", "function", "argparse", "rest", "numpydoc", "google", "class_call", "parse_function", "parse_class", "parse_argparse"}
Taints == {"retMoved", "docDefaults", "noneNorm", "typAny", "bodyRenamed"}

WriteSet(op) ==
  CASE op = "class"      -> {"retMoved", "noneNorm"}
    [] op = "class_call" -> {"retMoved", "noneNorm", "bodyRenamed"}
    [] op = "argparse"   -> {"typAny"}
    [] op \in {"rest", "numpydoc", "google"} -> {"docDefaults", "noneNorm"}
    [] OTHER             -> {}
Reads(op) ==
  CASE op \in {"class", "class_call"} -> {"retMoved", "docDefaults", "typAny", "bodyRenamed"}
    [] op = "function"   -> {"retMoved", "docDefaults", "typAny", "bodyRenamed"}
    [] op = "argparse"   -> {"retMoved", "docDefaults"}
    [] op \in {"rest", "numpydoc", "google"} -> {"retMoved", "typAny"}
    [] OTHER             -> {}
Effect(op, s) == IF InPlace THEN s \cup WriteSet(op) ELSE s
\* the output of a call is a function of the operation and of the taints it reads
Out(op, s) == <<op, s \cap Reads(op)>>

VARIABLES shared, hist, lastOut
vars == <<shared, hist, lastOut>>
Init == shared = {} /\ hist = <<>> /\ lastOut = <<"none", {}>>
Call(op) == /\ Len(hist) < MaxLen
            /\ lastOut' = Out(op, shared)
            /\ shared' = Effect(op, shared)
            /\ hist' = Append(hist, op)
Next == \E op \in Ops : Call(op)
Spec == Init /\ [][Next]_vars

\* every call yields what it would yield on a fresh copy
NonInterference == hist # <<>> => lastOut = Out(hist[Len(hist)], {})
\* stronger, state-only: nothing a later call could read has changed
ObsEquiv == \A op \in Ops : Out(op, shared) = Out(op, {})
Unmodified == shared = {}
=============================================================================
