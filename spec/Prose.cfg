SPECIFICATION Spec
INVARIANT LawsTotal
INVARIANT TypeKept
CHECK_DEADLOCK FALSE
