---------------------------- MODULE ConvertRel ----------------------------
(***************************************************************************)
(* Conversion between the seven representation kinds through the IR.       *)
(*                                                                         *)
(* One hop = Emit(k, o) ; Parse.  What a hop may do to an interface        *)
(* description is given as *per-field allowed sets* (A_Typ, A_Def, ...).   *)
(* Their product is the hop relation explored by TLC (Next); membership in *)
(* the same sets is what ConvertTrace.tla evaluates on recorded executions *)
(* of the real emitters/parsers -- one definition, two uses.               *)
(*                                                                         *)
(* Every entry of a fill / lossy table cites the sentence that licenses    *)
(* it (N1..N8 in DESIGN.md section 5.1).                                    *)
(***************************************************************************)
EXTENDS Domain, SequencesExt

\* ------------------------------------------------------------------------
\* what each kind can express
\* ------------------------------------------------------------------------
OptTyp(t)  == t \in {"OptStr", "OptInt", "OptBool", KwTyp}
\* C04: "restricted to types argparse can express (scalars, Optional/List/Literal of scalars, kwargs-named dict)"
ArgExpr(t) == t \in {"none", "str", "int", "float", "bool", "OptStr", "OptInt", "OptBool", "ListStr", "LitStr", "LitInt", KwTyp,
                      "Opt:float", "Opt:ListStr", "Opt:LitStr", "Opt:LitInt"}
\* C01: without default text, defaults are by construction not in a docstring
DefExpr(k, dd) == k \notin DocKind \/ dd

\* ------------------------------------------------------------------------
\* per-field allowed sets for a parameter slot b (before) --> a (after)
\* ------------------------------------------------------------------------
\* N3: absent type + explicit default => type may be filled with the default's Python type
\* N4: absent type => `object` in a class; absent / inexpressible type => `str` in argparse
FillTyp(k, b) ==
     (IF TypeOfDef(b.def) # "none" THEN {TypeOfDef(b.def)} ELSE {})
  \cup (IF b.def = "none" THEN {"NoneType"} ELSE {})          \* N3 applied to a None default
  \cup (IF k = "class" THEN {"object"} ELSE {})
  \cup (IF k = "argparse" THEN {"str", "OptStr"} ELSE {})

\* N8: argparse: not required <=> Optional[..]; a parameter whose default is None is not required, so its type may come
\*     back wrapped in Optional[..]
OptBase == {"float", "ListStr", "LitStr", "LitInt", "UnionIntStr", "TupleIntStr", "Dotted", "object", "Any", "dict", "NoneType", "other", "none"}
OptOf(t) == CASE t = "int" -> "OptInt" [] t = "str" -> "OptStr" [] t = "bool" -> "OptBool"
              [] t \in {"OptInt", "OptStr", "OptBool", KwTyp} -> t
              [] t \in {"Opt:" \o x : x \in OptBase} -> t           \* already wrapped
              [] OTHER -> "Opt:" \o t
A_Typ(k, b) ==
  IF b.typ # "none"
    THEN {b.typ} \cup (IF k = "argparse" /\ ~ArgExpr(b.typ) THEN {"str", "OptStr"} ELSE {})
                 \cup (IF k = "argparse" /\ b.def = "none" THEN {OptOf(b.typ)} ELSE {})
    ELSE {"none"} \cup FillTyp(k, b)

\* N5: class / argparse: a parameter without default acquires the zero value of its type, or None
\* N6: function / method: a parameter without default is emitted `=None`
\* N7: a ...kwargs parameter has default None
FillDef(k, b) ==
     (CASE k \in {"class", "argparse"} -> {Zero(t) : t \in A_Typ(k, b)} \cup {"none"}   \* zero of the (possibly filled) type
        [] k \in FunKind               -> {"none"}
        [] OTHER                       -> {})
  \cup (IF IsKw(b) THEN {"none"} ELSE {})

\* argparse cannot tell `default=None` from no default: an explicit None may come back as absent
A_Def(k, dd, b) ==
  IF b.def # "absent"
    THEN IF DefExpr(k, dd) THEN {b.def} \cup (IF k = "argparse" /\ b.def = "none" THEN {"absent"} ELSE {})
         ELSE {"absent"} \cup (IF IsKw(b) THEN {"none"} ELSE {})
    ELSE {"absent"} \cup FillDef(k, b)

\* N1: prose gains a terminal full stop when a `Defaults to` sentence is attached; the sentence itself may be
\*     kept in the IR's prose or not (both conventions occur in the repository's fixtures)
A_DStop(k, dd, b, adef) ==
  IF b.dbase # "own" THEN {FALSE}
  ELSE {b.dstop} \cup (IF dd /\ adef # "absent" THEN {TRUE} ELSE {})
                 \cup (IF b.dann = "same" THEN BOOLEAN ELSE {})
\* The class and argparse parsers always take the sentence out again (prose preserved exactly); the docstring and function
\* parsers leave it in.  A description that already carries the sentence (chains) may keep or lose it.
\* With default text off every kind takes the sentence out, also one that came in with the description.
A_DAnn(k, dd, b, adef) ==
  IF b.dbase # "own" \/ adef = "absent" \/ ~dd THEN {"no"}
  ELSE {"no"} \cup (IF k \notin {"class", "argparse"} \/ b.dann = "same" THEN {"same"} ELSE {})

SlotOK(k, dd, b, a) ==
  /\ a.name = b.name
  /\ a.typ \in A_Typ(k, b)
  /\ a.def \in A_Def(k, dd, b)
  /\ a.dbase = b.dbase
  /\ a.dstop \in A_DStop(k, dd, b, a.def)
  /\ a.dann \in A_DAnn(k, dd, b, a.def)

AllowedSlots(k, dd, b) ==
  UNION { { Slot(b.name, t, b.dbase, ds, da, d) : ds \in A_DStop(k, dd, b, d), da \in A_DAnn(k, dd, b, d) }
          : t \in A_Typ(k, b), d \in A_Def(k, dd, b) }

\* ------------------------------------------------------------------------
\* return entry
\* ------------------------------------------------------------------------
\* C04: argparse keeps "a return entry that carries a default"; one without may be dropped
R_Present(k, b) == IF b.present /\ k = "argparse" /\ b.def = "absent" THEN BOOLEAN ELSE {b.present}
R_Typ(k, b)     == IF b.typ # "none" THEN {b.typ}
                   ELSE {"none"} \cup (IF k = "class" THEN {"object"} ELSE {})
\* C02: the return entry is carried as the reserved attribute `return_type`; like every attribute it needs a value,
\* so N5 (zero value of its type, or None) applies to it as well
R_Def(k, dd, b) == IF b.def # "absent" /\ ~DefExpr(k, dd) THEN {"absent"}
                   ELSE {b.def} \cup (IF k = "class" /\ b.def = "absent" THEN {Zero(b.typ), "none"} ELSE {})

RetOK(k, dd, b, a) ==
  /\ a.present \in R_Present(k, b)
  /\ IF a.present
       THEN /\ a.typ \in R_Typ(k, b)
            /\ a.def \in R_Def(k, dd, b)
            /\ a.dbase = b.dbase
            /\ a.dstop \in A_DStop(k, dd, b, a.def)
            /\ a.dann \in A_DAnn(k, dd, b, a.def)
       ELSE a = NoRet

AllowedRets(k, dd, b) ==
  UNION { IF p
            THEN UNION { { Ret(TRUE, t, b.dbase, ds, da, d) :
                              ds \in A_DStop(k, dd, b, d), da \in A_DAnn(k, dd, b, d) }
                         : t \in R_Typ(k, b), d \in R_Def(k, dd, b) }
            ELSE {NoRet}
          : p \in R_Present(k, b) }

\* ------------------------------------------------------------------------
\* whole descriptions
\* ------------------------------------------------------------------------
\* argparse writes no `default=` for an explicit None; its parser recovers the None once an earlier option had a default
\* (not None) - so after such an option an explicit None must come back, not "absent"
PriorDefault(ps, i) == \E j \in 1..(i - 1) : ps[j].def \notin {"absent", "none"}
NoneRule(k, b, a, i) == (k = "argparse" /\ b.params[i].def = "none" /\ ~IsKw(b.params[i]) /\ PriorDefault(b.params, i)) => a.params[i].def = "none"

IROK(k, dd, b, a) ==
  /\ a.doc = b.doc
  /\ Len(a.params) = Len(b.params)
  /\ \A i \in 1..Len(b.params) : SlotOK(k, dd, b.params[i], a.params[i]) /\ NoneRule(k, b, a, i)
  /\ RetOK(k, dd, b.ret, a.ret)

RECURSIVE SeqProduct(_)
SeqProduct(ss) ==     \* all sequences s with s[i] \in ss[i]
  IF ss = <<>> THEN {<<>>}
  ELSE { <<h>> \o t : h \in Head(ss), t \in SeqProduct(Tail(ss)) }

AllowedIR(k, dd, b) ==
  { IR(b.doc, ps, r) :
      ps \in { q \in SeqProduct([i \in 1..Len(b.params) |-> AllowedSlots(k, dd, b.params[i])]) :
                 \A i \in 1..Len(q) : NoneRule(k, b, [params |-> q], i) },
      r \in AllowedRets(k, dd, b.ret) }

\* ------------------------------------------------------------------------
\* chains of hops (C05): what may have become of an *original* slot after the hops on `path` (seq of <<kind, dd>>)
\* ------------------------------------------------------------------------
PathKinds(path) == {path[i][1] : i \in 1..Len(path)}
PathLossy(path) == \E i \in 1..Len(path) : ~DefExpr(path[i][1], path[i][2])
AnyFillDef == {"none", "int0", "strEmpty", "float0", "boolF"}
AnyFillTyp(path, o) == (IF TypeOfDef(o.def) # "none" THEN {TypeOfDef(o.def)} ELSE {})
                 \cup {"NoneType"}      \* N3 on a None default (explicit, or filled by an earlier hop)
                 \cup (IF "class" \in PathKinds(path) THEN {"object"} ELSE {})
                 \cup (IF "argparse" \in PathKinds(path) THEN {"str", "OptStr"} ELSE {})
\* types a slot may have after the kinds on the path: itself, a fill of an absent type, argparse's str fall-back for
\* anything argparse cannot express, and (argparse) the Optional[..] wrapping of a None-defaulted parameter
ChainTyps(path, o) ==
  LET base0 == {o.typ} \cup (IF o.typ = "none" THEN AnyFillTyp(path, o) ELSE {})
      base1 == base0 \cup (IF "argparse" \in PathKinds(path) /\ (\E t \in base0 : ~ArgExpr(t)) THEN {"str", "OptStr"} ELSE {})
  IN  base1 \cup (IF "argparse" \in PathKinds(path) THEN {OptOf(t) : t \in base1} ELSE {})
ChainDefs(path, o) ==
  {o.def} \cup (IF o.def = "absent" THEN AnyFillDef ELSE {})
          \cup (IF PathLossy(path) THEN {"absent"} \cup AnyFillDef ELSE {})
          \cup (IF "argparse" \in PathKinds(path) /\ o.def = "none" THEN {"absent"} \cup AnyFillDef ELSE {})
SlotRefines(path, o, c) ==
  /\ c.name = o.name
  /\ c.dbase = o.dbase
  /\ c.typ \in ChainTyps(path, o)
  /\ c.def \in ChainDefs(path, o)
  /\ c.dann # "diff"
ChainRetDefs(path, o) ==
  {o.def} \cup (IF PathLossy(path) THEN {"absent"} \cup AnyFillDef ELSE {})
          \cup (IF o.def = "absent" /\ "class" \in PathKinds(path) THEN AnyFillDef ELSE {})
ChainRetTyps(path, o) == {o.typ} \cup (IF o.typ = "none" /\ "class" \in PathKinds(path) THEN {"object"} ELSE {})
RetRefines(path, o, c) ==
  /\ (c.present => o.present)
  /\ (o.present /\ ~c.present => "argparse" \in PathKinds(path))
  /\ (c.present => /\ c.dbase = o.dbase
                   /\ c.def \in ChainRetDefs(path, o)
                   /\ c.typ \in ChainRetTyps(path, o))

\* ------------------------------------------------------------------------
\* style detection (C01): priority rest > google > numpydoc over section-token flags
\* ------------------------------------------------------------------------
HasEntries(ir) == Len(ir.params) > 0 \/ ir.ret.present
EmitFlags(k, ir) == [rest  |-> k = "rest" /\ HasEntries(ir),
                     google |-> k = "google" /\ HasEntries(ir),
                     numpy |-> k = "numpydoc" /\ HasEntries(ir)]
Detect(f) == IF f.rest THEN "rest" ELSE IF f.google THEN "google" ELSE "numpydoc"

\* ------------------------------------------------------------------------
\* denotation of emitted code in Python's own terms (C06): per-field allowed observations
\* ------------------------------------------------------------------------
\* class attribute
C_Ann(s) == IF s.typ # "none" THEN {s.typ}
            ELSE {"object"} \cup (IF TypeOfDef(s.def) # "none" THEN {TypeOfDef(s.def)} ELSE {})
                            \cup (IF s.def = "none" THEN {"NoneType"} ELSE {})
C_Val(s) == IF s.def # "absent" THEN {s.def} ELSE {Zero(s.typ), "none"}
C_RetAnn(r) == IF r.typ # "none" THEN {r.typ} ELSE {"object"}
C_RetVal(r) == IF r.def = "code" THEN {"code", "codeQ", "codeBare"} ELSE {"none", Zero(r.typ)}
\* function signature
F_Kind(kwonly, s) == IF IsKw(s) THEN "kwarg" ELSE IF kwonly THEN "kwonly" ELSE "pos"
F_Ann(inline, s)  == IF IsKw(s) THEN {"empty", KwTyp}
                     ELSE IF inline /\ s.typ # "none" THEN {s.typ} ELSE {"empty"}
F_Def(s)          == IF IsKw(s) THEN {"empty"}
                     ELSE IF s.def # "absent" THEN {s.def} ELSE {"empty", "none"}
F_RetAnn(inline, r) == IF inline /\ r.present /\ r.typ # "none" THEN {r.typ} ELSE {"empty"}
F_RetExpr(r)      == IF r.present /\ r.def = "code" THEN "code" ELSE "none"
F_First(ftype)    == IF ftype = "static" THEN "none" ELSE ftype
\* argparse option table
O_Type(s) ==
  CASE IsKw(s)                                          -> {"loads"}
    [] s.typ \in {"int", "OptInt", "LitInt"}            -> {"int"}
    [] s.typ = "float"                                  -> {"float"}
    [] s.typ \in {"bool", "OptBool"}                    -> {"bool"}
    [] s.typ = "none" /\ TypeOfDef(s.def) # "none"      -> {"none", "str", TypeOfDef(s.def)}
    [] OTHER                                            -> {"none", "str"}     \* str is argparse's default type
O_Choices(s)  == s.typ \in {"LitStr", "LitInt"}
O_Append(s)   == s.typ = "ListStr"
O_Required(s) == IF OptTyp(s.typ) \/ IsKw(s) \/ s.def = "none" THEN {FALSE}
                 ELSE IF s.def # "absent" \/ s.typ = "none" \/ ~ArgExpr(s.typ) THEN BOOLEAN ELSE {TRUE}
O_Def(s)      == IF s.def # "absent" THEN {s.def} ELSE {"none", Zero(s.typ)}

=============================================================================
