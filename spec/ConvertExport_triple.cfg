SPECIFICATION Spec
CONSTANTS
  Dom = "triple"
  MaxHops = 0
CHECK_DEADLOCK FALSE
