----------------------------- MODULE GenExport -----------------------------
EXTENDS Gen, Json, IOUtils
ASSUME ndJsonSerialize(IOEnv.EXPORT_DIR \o "/gen.ndjson", SetToSeq({[cfg |-> c, want |-> Expected(c)] : c \in Cfg}))
=============================================================================
