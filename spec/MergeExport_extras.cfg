SPECIFICATION Spec
CONSTANTS
  MissingOrder = "signature"
  Reorder = TRUE
  PadFromFront = FALSE
  DocExtras = {"yy", "zz"}
CHECK_DEADLOCK FALSE
