-------------------------------- MODULE Sync --------------------------------
(***************************************************************************)
(* `sync`: one source of truth, every other named file conformed to it     *)
(* (C09 agreement, C10 idempotence / truth untouched / truthful report,    *)
(* C11 frame preservation, C20 old-or-new under faults).                   *)
(*                                                                         *)
(* A project is a function from kinds to abstract file contents            *)
(*   [st, b, d, a]   st \in missing | empty | mod | partial                *)
(*                   b, a: ids of the other statements before / after the  *)
(*                         named definition (sequences of strings)         *)
(*                   d \in absent | v1 | v2 | other  (interface version as *)
(*                         Python sees it)                                 *)
(* "partial" is the forbidden third value of C20: truncated / half-written *)
(* / syntactically broken.                                                 *)
(*                                                                         *)
(* One invocation = Begin ; for every given kind in command-line order     *)
(* Decide (keep | write) ; write steps ; End.  A write is either           *)
(* Open(truncate) ; Write   (Atomic = FALSE, what emit.file does) or       *)
(* Tmp ; Rename             (Atomic = TRUE, the design C20 needs).         *)
(* Fault may strike between any two steps and aborts the invocation.       *)
(* SkipTruth says whether the truth file is excluded from conforming.      *)
(* A file may be named on the command line by any spelling of its path     *)
(* (relative, through a symbolic link, ...): `spell` records whether the   *)
(* spelling is the canonical one.  BySpelling = TRUE is the design in      *)
(* which the truth file is recognised by comparing spellings, not files.   *)
(***************************************************************************)
EXTENDS Naturals, Sequences, FiniteSets, TLC

CONSTANTS Atomic, SkipTruth, MaxRuns, BySpelling, Twin, Rich, SkipKind

\* Twin = TRUE: a second file of the truth's kind is named as well ("twin": an ordinary target, not the truth).
\* Rich = FALSE shrinks the frames so that the larger project stays checkable in seconds.
BaseK == {"argparse", "class", "function"}
Kinds == <<"argparse", "class", "function">> \o (IF Twin THEN <<"twin">> ELSE <<>>)     \* processing order of ground_truth
K     == BaseK \cup (IF Twin THEN {"twin"} ELSE {})
Ver   == {"v1", "v2"}
Ids   == IF Rich THEN {<<>>, <<"s1">>, <<"s1", "s2">>} ELSE {<<>>, <<"s1">>}
AfterIds == IF Rich THEN {<<>>, <<"t1">>} ELSE {<<>>}

\* canon: the definition's text is exactly what the emitter writes (a hand-written, agreeing definition is not canonical)
File(st, b, d, a, c) == [st |-> st, b |-> b, d |-> d, a |-> a, canon |-> c]
Missing == File("missing", <<>>, "absent", <<>>, FALSE)
Empty   == File("empty", <<>>, "absent", <<>>, FALSE)
Partial == File("partial", <<>>, "absent", <<>>, FALSE)
PreStates   == {Missing, Empty} \cup {File("mod", b, d, a, c) : b \in Ids, d \in {"absent", "v1", "v2"}, a \in AfterIds, c \in BOOLEAN}
TruthStates == {File("mod", b, d, a, c) : b \in Ids, d \in Ver, a \in AfterIds, c \in BOOLEAN}

\* what a target must become when the truth says version v: created / appended / replaced in place, frame kept
Wanted(f, v) == IF f.st \in {"missing", "empty", "partial"} THEN File("mod", <<>>, v, <<>>, TRUE)
                ELSE IF f.d = "absent" THEN File("mod", f.b \o f.a, v, <<>>, TRUE)     \* appended after everything else
                ELSE File("mod", f.b, v, f.a, TRUE)

VARIABLES fs,        \* the project
          truth,     \* which kind is the source of truth
          given,     \* which kinds were named on the command line (2 or 3, truth among them)
          pc, idx, wstep,
          pre,       \* snapshot at Begin (re-taken by user edits)
          report,    \* per kind: reported as changed by this invocation
          synced,    \* a completed invocation since the last edit
          runs, faulted,
          spell      \* "canon" | "alias" -- how the truth file was named on the command line (only its spelling can matter)
vars == <<fs, truth, given, pc, idx, wstep, pre, report, synced, runs, faulted, spell>>

Init == /\ truth \in BaseK
        /\ given \in {g \in SUBSET K : truth \in g /\ Cardinality(g) >= 2}
        /\ fs \in {g \in [K -> PreStates] : g[truth] \in TruthStates /\ \A k \in K : (g[k].d = "absent" => ~g[k].canon)}
        /\ pc = "idle" /\ idx = 1 /\ wstep = "none" /\ pre = fs
        /\ report = [k \in K |-> FALSE] /\ synced = FALSE /\ runs = 0 /\ faulted = FALSE
        /\ spell \in {"canon", "alias"}

Cur      == Kinds[idx]
TruthVer == pre[truth].d
\* SkipKind = TRUE is the design that leaves every file of the truth's *kind* alone, not only the truth file itself
IsTruthFile(k) == (k = truth /\ (BySpelling => spell = "canon")) \/ (SkipKind /\ k = "twin")
Keep(k)  == k \notin given \/ (SkipTruth /\ IsTruthFile(k)) \/ Wanted(fs[k], TruthVer) = fs[k]

Begin == /\ pc = "idle" /\ runs < MaxRuns /\ ~faulted
         /\ pc' = "target" /\ idx' = 1 /\ pre' = fs /\ report' = [k \in K |-> FALSE] /\ runs' = runs + 1
         /\ UNCHANGED <<fs, truth, given, wstep, synced, faulted, spell>>
DecideKeep  == /\ pc = "target" /\ wstep = "none" /\ idx <= Len(Kinds) /\ Keep(Cur)
               /\ idx' = idx + 1 /\ UNCHANGED <<fs, truth, given, pc, wstep, pre, report, synced, runs, faulted, spell>>
DecideWrite == /\ pc = "target" /\ wstep = "none" /\ idx <= Len(Kinds) /\ ~Keep(Cur)
               /\ wstep' = (IF Atomic THEN "tmp" ELSE "open")
               /\ UNCHANGED <<fs, truth, given, pc, idx, pre, report, synced, runs, faulted, spell>>
Open   == /\ wstep = "open" /\ fs' = [fs EXCEPT ![Cur] = Partial] /\ wstep' = "write"
          /\ UNCHANGED <<truth, given, pc, idx, pre, report, synced, runs, faulted, spell>>
Write  == /\ wstep = "write" /\ fs' = [fs EXCEPT ![Cur] = Wanted(pre[Cur], TruthVer)] /\ wstep' = "none" /\ idx' = idx + 1
          /\ report' = [report EXCEPT ![Cur] = TRUE] /\ UNCHANGED <<truth, given, pc, pre, synced, runs, faulted, spell>>
Tmp    == /\ wstep = "tmp" /\ wstep' = "rename"
          /\ UNCHANGED <<fs, truth, given, pc, idx, pre, report, synced, runs, faulted, spell>>
Rename == /\ wstep = "rename" /\ fs' = [fs EXCEPT ![Cur] = Wanted(pre[Cur], TruthVer)] /\ wstep' = "none" /\ idx' = idx + 1
          /\ report' = [report EXCEPT ![Cur] = TRUE] /\ UNCHANGED <<truth, given, pc, pre, synced, runs, faulted, spell>>
End    == /\ pc = "target" /\ idx = Len(Kinds) + 1 /\ wstep = "none" /\ pc' = "idle" /\ synced' = TRUE
          /\ UNCHANGED <<fs, truth, given, idx, wstep, pre, report, runs, faulted, spell>>
Fault  == /\ pc = "target" /\ ~faulted /\ faulted' = TRUE /\ pc' = "idle" /\ wstep' = "none"
          /\ UNCHANGED <<fs, truth, given, idx, pre, report, synced, runs, spell>>
EditTruth == /\ pc = "idle" /\ ~faulted /\ runs < MaxRuns
             /\ \E v \in Ver : v # fs[truth].d /\ fs' = [fs EXCEPT ![truth] = File("mod", fs[truth].b, v, fs[truth].a, FALSE)]
             /\ pre' = fs' /\ report' = [k \in K |-> FALSE] /\ synced' = FALSE
             /\ UNCHANGED <<truth, given, pc, idx, wstep, runs, faulted, spell>>

\* between invocations the user may name another of the given files as the truth (alternating truth kinds): like an edit,
\* this starts a new round - the former truth is an ordinary target now and may be brought into canonical form once
SwitchTruth == /\ pc = "idle" /\ ~faulted /\ synced /\ runs < MaxRuns
               /\ \E k \in (given \cap BaseK) \ {truth} : truth' = k
               /\ pre' = fs /\ report' = [k \in K |-> FALSE] /\ synced' = FALSE
               /\ UNCHANGED <<fs, given, pc, idx, wstep, runs, faulted, spell>>

Next == Begin \/ DecideKeep \/ DecideWrite \/ Open \/ Write \/ Tmp \/ Rename \/ End \/ Fault \/ EditTruth \/ SwitchTruth
Spec == Init /\ [][Next]_vars

\* ---- properties -----------------------------------------------------------------
Done == pc = "idle" /\ synced /\ ~faulted
\* C09: every named target exists and carries the truth's version
Agreement == Done => \A k \in given : fs[k].st = "mod" /\ fs[k].d = fs[truth].d
\* C10: the truth file is never modified by an invocation that names it as truth
TruthUntouched == pc = "target" => fs[truth] = pre[truth]
\* C10: the report is true exactly for the files that changed
ReportTruthful == (pc = "idle" /\ runs > 0 /\ ~faulted) => \A k \in K : report[k] <=> (fs[k] # pre[k])
\* C11: the statements around the definition survive (an appended definition goes after everything)
FrameKept == \A k \in K : (pre[k].st = "mod" /\ fs[k].st = "mod") => (fs[k].b \o fs[k].a = pre[k].b \o pre[k].a)
\* C20: every file is always byte-identical to before or completely rewritten
OldOrNew == \A k \in K : fs[k] \in {pre[k], Wanted(pre[k], pre[truth].d)}
\* files not named on the command line are never touched
Untouched == \A k \in K \ given : fs[k] = pre[k]
\* C10: an invocation that follows a completed one without an edit in between changes nothing
Idempotent == [][(pc = "target" /\ synced) => UNCHANGED fs]_vars
=============================================================================
