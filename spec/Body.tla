-------------------------------- MODULE Body --------------------------------
(***************************************************************************)
(* C16: implementation bodies are carried through conversions verbatim.    *)
(*                                                                         *)
(* A body is a sequence of statement tokens.  `doc` is the docstring       *)
(* expression, `ret` a top-level `return <expr>`, `bareret` a top-level    *)
(* `return`, `strexpr` an expression statement that is a string constant   *)
(* (not the docstring), `parserassign` an assignment to `argument_parser`, *)
(* `addarg` an add_argument call, `descr` the description assignment; the  *)
(* others are ordinary user statements.                                    *)
(*                                                                         *)
(* Carry(kind, body) is what parse followed by emit to the same kind and   *)
(* name does to the statements that are *not* part of the interface, as a  *)
(* function on token sequences.  Rules = "positional" transcribes the      *)
(* special cases of the code base (skip a leading string expression, skip  *)
(* the second statement when it assigns argument_parser, drop a trailing   *)
(* return when a default return exists, take the last top-level return as  *)
(* the default); Rules = "structural" is the design the property states.   *)
(* TLC checks Verbatim and ReturnOnce for every body up to MaxLen.         *)
(***************************************************************************)
EXTENDS Naturals, Sequences, FiniteSets, TLC, SequencesExt

CONSTANTS Rules, MaxLen, Shared

\* "annassign": an annotated assignment, "bareann": a bare annotation (`pending: list`) - statements like any other in a body
User   == {"assign", "callkw", "loop", "ifret", "nested", "compr", "strexpr", "annassign", "bareann"}
FnTok  == User \cup {"ret", "bareret"}
ArgTok == User \cup {"parserassign"}
SeqUpTo(S, n) == UNION {[1..j -> S] : j \in 0..n}

\* ---- function / method --------------------------------------------------------
\* source body = <<doc>> \o user ; the interface owns the docstring and the *final* `return <expr>`
FnBodies == SeqUpTo(FnTok, MaxLen)
LastRetIdx(b) == IF \E i \in 1..Len(b) : b[i] = "ret" THEN CHOOSE i \in 1..Len(b) : b[i] = "ret" /\ \A j \in (i + 1)..Len(b) : b[j] # "ret" ELSE 0
CarryFn(b) ==
  IF Rules = "positional"
    THEN \* parse: the last top-level `return <expr>` anywhere becomes the default; emit: drop the last statement iff it is a
         \* Return and a default exists, then append the default return
         LET hasDefault == LastRetIdx(b) # 0
             kept == IF hasDefault /\ Len(b) > 0 /\ b[Len(b)] \in {"ret", "bareret"} THEN SubSeq(b, 1, Len(b) - 1) ELSE b
         IN IF hasDefault THEN Append(kept, "ret") ELSE kept
    ELSE b
\* ---- argparse function ----------------------------------------------------------
\* source body = <<doc, descr>> \o interleaving of addarg and extra statements \o <<ret>>; extra statements are `extra`
ArgBodies == SeqUpTo(ArgTok, MaxLen)
CarryArg(b) ==
  IF Rules = "positional"
    THEN \* parse removes docstring, add_argument calls and the description; emit skips b[1] when it is a string expression
         \* (taken for the docstring) and then b[2] when that assigns argument_parser
         IF Len(b) > 0 /\ b[1] = "strexpr"
           THEN SubSeq(b, IF Len(b) > 1 /\ b[2] = "parserassign" THEN 3 ELSE 2, Len(b))
           ELSE b
    ELSE b

\* `held` is the body inside the parsed description.  Re-homing it into a class `__call__` (Rehome) works on a copy
\* (Shared = FALSE, the code since "fix: emitters deepcopy"); with Shared = TRUE the class emitter rewrites the held
\* statements themselves, so a parameter reference becomes self.<name> ("rewritten") in every later conversion of the
\* same description (Body_shared.cfg shows TLC finding that).
HasParamRef == {"assign", "callkw", "loop", "ifret", "ret", "annassign"}
RewriteInPlace(b) == [i \in 1..Len(b) |-> IF b[i] \in HasParamRef THEN "rewritten" ELSE b[i]]
VARIABLES kind, body, held, out, rehomed
vars == <<kind, body, held, out, rehomed>>
Init == /\ kind \in {"function", "argparse"}
        /\ body \in (IF kind = "function" THEN FnBodies ELSE ArgBodies)
        /\ held = body /\ rehomed = FALSE
        /\ out = <<"pending">>
Carry(k, b) == IF k = "function" THEN CarryFn(b) ELSE CarryArg(b)
Convert == /\ out' = Carry(kind, held)
           /\ UNCHANGED <<kind, body, held, rehomed>>
Rehome  == /\ kind = "function" /\ ~rehomed /\ rehomed' = TRUE
           /\ held' = IF Shared THEN RewriteInPlace(held) ELSE held
           /\ out' = <<"pending">>
           /\ UNCHANGED <<kind, body>>
Spec == Init /\ [][Convert \/ Rehome]_vars

Done == out # <<"pending">>
\* no statement dropped, duplicated or reordered
Verbatim   == Done => out = body
\* the final return is kept exactly once
ReturnOnce == Done /\ kind = "function" => Cardinality({i \in 1..Len(out) : out[i] = "ret"}) = Cardinality({i \in 1..Len(body) : body[i] = "ret"})
\* the description still holds the body it was parsed from, however many artefacts were made from it
HeldIntact == held = body
=============================================================================
