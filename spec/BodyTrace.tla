----------------------------- MODULE BodyTrace -----------------------------
(* Trace validation for Body.tla: {"id", "kind", "body": [tokens], "exc", "out": [tokens], "call": {"exc", "rewritten": [labels], "params": [labels]}, "again": {"exc", "out", "out2"}}  *)
(* out = the non-interface statements after parse + emit to the same kind and name, as tokens ("other" = a statement that matches no template).   *)
(* call.rewritten = labels of the Name occurrences that became self.<name> in the generated __call__; call.params = labels that refer to parameters *)
EXTENDS Body, Json, IOUtils
Traces == IF "TRACE_FILE" \in DOMAIN IOEnv THEN ndJsonDeserialize(IOEnv.TRACE_FILE) ELSE <<>>
VARIABLES tid, l
T == Traces[tid]
Cnt(s, x) == Cardinality({i \in 1..Len(s) : s[i] = x})
SetOf(s) == {s[i] : i \in 1..Len(s)}
Clauses ==
  (IF T.exc # "none" THEN << <<"NeverRaises", FALSE>> >>
   ELSE << <<"Verbatim", T.out = T.body>>,
           <<"NoneDropped", \A x \in SetOf(T.body) : Cnt(T.out, x) >= Cnt(T.body, x)>>,
           <<"NoneDuplicated", \A x \in SetOf(T.out) : Cnt(T.out, x) <= Cnt(T.body, x)>>,
           <<"ReturnOnce", T.kind # "function" \/ Cnt(T.out, "ret") = Cnt(T.body, "ret")>> >>
        \* HeldIntact: the same conversion of the same description after a class (with / without __call__) was made from it
        \o (IF T.again.exc = "skipped" THEN << >>
            ELSE IF T.again.exc # "none" THEN << <<"AgainNeverRaises", FALSE>> >>
            ELSE << <<"HeldIntact", T.again.out = T.out /\ T.again.out2 = T.out>> >>))
  \o (IF T.call.exc = "skipped" THEN << >>
      ELSE IF T.call.exc # "none" THEN << <<"CallNeverRaises", FALSE>> >>
      ELSE << <<"OnlyParamRefsRewritten", SetOf(T.call.rewritten) = SetOf(T.call.params)>> >>)
TInit == tid \in 1..Len(Traces) /\ l = 1 /\ kind = "trace" /\ body = <<>> /\ held = <<>> /\ rehomed = FALSE /\ out = <<"pending">>
TStep == /\ l = 1
         /\ LET bad == SelectSeq(Clauses, LAMBDA x : ~x[2]) IN \A i \in 1..Len(bad) : PrintT(<<"F", T.id, 1, bad[i][1], "-">>)
         /\ PrintT(<<"D", T.id, 1>>)
         /\ l' = 2 /\ UNCHANGED <<tid, vars>>
TraceSpec == TInit /\ [][TStep]_<<tid, l, vars>>
=============================================================================
