SPECIFICATION Spec
CONSTANTS
  Dom = "pair"
  MaxHops = 1
INVARIANT TypeOK
INVARIANT ChainRefines
INVARIANT Tight
INVARIANT FixedPointConsistent
INVARIANT StyleSound
CHECK_DEADLOCK FALSE
