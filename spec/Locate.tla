------------------------------- MODULE Locate -------------------------------
(***************************************************************************)
(* Dotted locations in a module tree (C15; reused by Sync / SyncProps).    *)
(*                                                                         *)
(* A module is a sequence of items; an item is a uniform record            *)
(*   [k, n, args, kwonly, body]   k \in assign | annassign | func | class  *)
(*                                     | other                             *)
(* (no sum types: unused fields are empty).  The *qualified path* of a     *)
(* node is the sequence of names from the module root; function arguments  *)
(* (positional and keyword-only) are children of their function.           *)
(*                                                                         *)
(* Resolve(mod, path) is declarative: the set of node addresses whose      *)
(* qualified path is exactly `path`.  Descend is the intended algorithm    *)
(* (one path segment per step over the children of the current node); TLC  *)
(* checks Descend = Resolve and that Resolve is a partial function on the  *)
(* domain, and ReplaceAt touches exactly Resolve's node.                   *)
(*                                                                         *)
(* An address is a sequence of child indexes; argument j of a function is  *)
(* 100 + j, keyword-only argument j is 200 + j.                            *)
(***************************************************************************)
EXTENDS Naturals, Sequences, FiniteSets, TLC, SequencesExt

Item(k, n, as, kw, b) == [k |-> k, n |-> n, args |-> as, kwonly |-> kw, body |-> b]
Assign(n)        == Item("assign", n, <<>>, <<>>, <<>>)
AnnAssign(n)     == Item("annassign", n, <<>>, <<>>, <<>>)
Func(n, as, kw)  == Item("func", n, as, kw, <<>>)
Cls(n, b)        == Item("class", n, <<>>, <<>>, b)
Other(n)         == Item("other", n, <<>>, <<>>, <<>>)      \* import / expression statement: has no path

Named(it) == it.k # "other"

\* ---- declarative resolution ---------------------------------------------------
RECURSIVE PathsOf(_, _, _)
PathsOf(items, prefix, addr) ==
  UNION { LET it == items[i]  p == Append(prefix, it.n)  ad == Append(addr, i) IN
            IF ~Named(it) THEN {}
            ELSE {<<p, ad>>}
                 \cup (IF it.k = "func"
                         THEN {<<Append(p, it.args[j]), Append(ad, 100 + j)>> : j \in 1..Len(it.args)}
                              \cup {<<Append(p, it.kwonly[j]), Append(ad, 200 + j)>> : j \in 1..Len(it.kwonly)}
                         ELSE {})
                 \cup (IF it.k = "class" THEN PathsOf(it.body, p, ad) ELSE {})
        : i \in 1..Len(items) }
AllPaths(m)        == {pa[1] : pa \in PathsOf(m, <<>>, <<>>)}
Resolve(m, path)   == {pa[2] : pa \in {q \in PathsOf(m, <<>>, <<>>) : q[1] = path}}
None               == <<0>>
ResolveOne(m, path) == IF Resolve(m, path) = {} THEN None ELSE CHOOSE a \in Resolve(m, path) : TRUE

\* well-formed: no two same-named named siblings, argument names of one function distinct
RECURSIVE WellFormed(_)
WellFormed(items) ==
  /\ \A i, j \in 1..Len(items) : (i # j /\ Named(items[i]) /\ Named(items[j])) => items[i].n # items[j].n
  /\ \A i \in 1..Len(items) :
       /\ LET all == items[i].args \o items[i].kwonly IN \A a, b \in 1..Len(all) : a # b => all[a] # all[b]
       /\ WellFormed(items[i].body)

\* ---- the domain explored by TLC (curated level sets, see DESIGN 5.6) ----------
CONSTANT Size      \* "tiny" | "small" | "medium"

SeqUpTo(S, n) == UNION {[1..j -> S] : j \in 0..n}
\* "am" and "BA" are look-alikes: names that merely *contain* another name of the domain (a match must be exact)
Leaf ==
  {Assign("a"), AnnAssign("m"), Func("a", <<>>, <<>>), Func("m", <<"a">>, <<>>), Func("a", <<"a", "m">>, <<>>),
   Func("m", <<"m">>, <<"a">>), Other("x"), Func("am", <<"a">>, <<>>)}
Inner == {Cls("B", <<>>), Cls("B", <<Func("m", <<"a">>, <<>>)>>), Cls("A", <<AnnAssign("a")>>),
          Cls("B", <<Func("a", <<"m">>, <<>>), Cls("A", <<Assign("m")>>)>>), Cls("BA", <<AnnAssign("a")>>)}
Member == Leaf \cup Inner
Bodies ==
  IF Size = "tiny"
    THEN SeqUpTo(Member, 1) \cup {<<Func("m", <<"a">>, <<>>), Assign("a")>>, <<Func("a", <<>>, <<>>), Func("m", <<"m">>, <<"a">>)>>,
                                  <<AnnAssign("m"), Cls("B", <<Func("m", <<"a">>, <<>>)>>)>>}
    ELSE SeqUpTo(Member, 2)
Class == {Cls(c, b) : c \in {"A", "B"}, b \in {s \in Bodies : WellFormed(s)}}
Top == Leaf \cup Class
Modules ==
  IF Size \in {"tiny", "small"}
    THEN {s \in SeqUpTo(Top, 2) : WellFormed(s)}
         \cup (IF Size = "tiny"
                THEN {s \in {<<l, c, t>> : l \in {Func("a", <<"a", "m">>, <<>>), Assign("a"), Other("x")},
                                            c \in Class, t \in {Func("m", <<"a">>, <<>>), Cls("B", <<Func("m", <<"a">>, <<>>)>>)}} : WellFormed(s)}
                ELSE {})
    ELSE {s \in SeqUpTo(Top, 2) : WellFormed(s)}
         \cup {s \in {<<l, c, t>> : l \in Leaf, c \in Class, t \in Leaf \cup Inner} : WellFormed(s)}
Bogus == {<<"zz">>, <<"A", "zz">>, <<"a", "zz">>, <<"m", "a", "zz">>, <<"A", "m", "zz">>, <<"B", "A", "zz">>, <<"a", "a", "a">>,
          <<"A", "B">>, <<"m", "m">>, <<"am", "m">>, <<"BA", "m">>, <<"B", "am">>}

\* ---- the intended algorithm: iterative descent --------------------------------
VARIABLES mod, path, cursor, addr, seg, res, pc
vars == <<mod, path, cursor, addr, seg, res, pc>>

Init == /\ mod \in Modules
        /\ path \in AllPaths(mod) \cup Bogus
        /\ cursor = mod /\ addr = <<>> /\ seg = 1 /\ res = None /\ pc = "descend"

Match(i) == Named(cursor[i]) /\ cursor[i].n = path[seg]
ArgIdx(it, n)  == {j \in 1..Len(it.args) : it.args[j] = n}
KwIdx(it, n)   == {j \in 1..Len(it.kwonly) : it.kwonly[j] = n}

Descend ==
  /\ pc = "descend"
  /\ IF \E i \in 1..Len(cursor) : Match(i)
       THEN LET i == CHOOSE i \in 1..Len(cursor) : Match(i)  it == cursor[i] IN
              IF seg = Len(path)
                THEN /\ res' = Append(addr, i) /\ pc' = "done" /\ UNCHANGED <<cursor, addr, seg>>
              ELSE IF it.k = "class"
                THEN /\ cursor' = it.body /\ addr' = Append(addr, i) /\ seg' = seg + 1 /\ UNCHANGED <<res, pc>>
              ELSE IF it.k = "func" /\ seg + 1 = Len(path) /\ ArgIdx(it, path[seg + 1]) # {}
                THEN /\ res' = Append(Append(addr, i), 100 + (CHOOSE j \in ArgIdx(it, path[seg + 1]) : TRUE))
                     /\ pc' = "done" /\ UNCHANGED <<cursor, addr, seg>>
              ELSE IF it.k = "func" /\ seg + 1 = Len(path) /\ KwIdx(it, path[seg + 1]) # {}
                THEN /\ res' = Append(Append(addr, i), 200 + (CHOOSE j \in KwIdx(it, path[seg + 1]) : TRUE))
                     /\ pc' = "done" /\ UNCHANGED <<cursor, addr, seg>>
              ELSE /\ pc' = "done" /\ UNCHANGED <<cursor, addr, seg, res>>
       ELSE /\ pc' = "done" /\ UNCHANGED <<cursor, addr, seg, res>>
  /\ UNCHANGED <<mod, path>>

Next == Descend
Spec == Init /\ [][Next]_vars

\* ---- properties -----------------------------------------------------------------
DomainWellFormed == WellFormed(mod)
Unique           == Cardinality(Resolve(mod, path)) <= 1
AlgEqualsSpec    == pc = "done" => res = ResolveOne(mod, path)
\* replacing at a location: exactly the resolved node changes
ReplaceSet(m, p)  == Resolve(m, p)
ReplaceExact     == Cardinality(ReplaceSet(mod, path)) <= 1 /\ (ReplaceSet(mod, path) = {} <=> ResolveOne(mod, path) = None)
=============================================================================
