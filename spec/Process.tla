------------------------------ MODULE Process ------------------------------
(***************************************************************************)
(* C12: output is a deterministic function of the input.                   *)
(*                                                                         *)
(* Several operating-system processes, each with hidden state the          *)
(* properties say must not matter (string-hash seed, how many conversions  *)
(* ran before, in which order), perform conversions.  `memo` remembers the *)
(* output first seen for every (operation, input).  A call is a behaviour  *)
(* of the specification iff it agrees with memo: the merged history of all *)
(* processes is accepted iff outputs are a function of (operation, input). *)
(* Histories are ordered by (process id, per-process sequence number);     *)
(* there is no wall clock anywhere.                                        *)
(***************************************************************************)
EXTENDS Naturals, Sequences, FiniteSets, TLC

CONSTANTS Procs, OpsC, Inputs, Outputs, MaxCalls

VARIABLES memo,     \* [OpsC \X Inputs -> Outputs \cup {"unseen"}]
          hidden,   \* per process: number of calls so far (stands for every piece of hidden state)
          calls
vars == <<memo, hidden, calls>>

Init == /\ memo = [x \in OpsC \X Inputs |-> "unseen"]
        /\ hidden = [p \in Procs |-> 0]
        /\ calls = 0

Call(p, op, i, o) ==
  /\ calls < MaxCalls
  /\ memo[<<op, i>>] \in {"unseen", o}            \* the only constraint: agree with what any process produced before
  /\ memo' = [memo EXCEPT ![<<op, i>>] = o]
  /\ hidden' = [hidden EXCEPT ![p] = @ + 1]
  /\ calls' = calls + 1

Next == \E p \in Procs, op \in OpsC, i \in Inputs, o \in Outputs : Call(p, op, i, o)
Spec == Init /\ [][Next]_vars

\* once an output has been seen it never changes, whatever the hidden state of the caller
Functional == [][\A x \in OpsC \X Inputs : memo[x] # "unseen" => memo'[x] = memo[x]]_vars
TypeOK == \A x \in OpsC \X Inputs : memo[x] \in Outputs \cup {"unseen"}
=============================================================================
