SPECIFICATION Spec
CONSTANTS
  MissingOrder = "signature"
  Reorder = TRUE
  PadFromFront = FALSE
  DocExtras = {}
CHECK_DEADLOCK FALSE
