SPECIFICATION Spec
CONSTANTS
  MissingOrder = "signature"
  Reorder = TRUE
  PadFromFront = FALSE
CHECK_DEADLOCK FALSE
