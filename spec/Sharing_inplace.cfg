SPECIFICATION Spec
CONSTANTS
  InPlace = TRUE
  MaxLen = 4
INVARIANT NonInterference
INVARIANT ObsEquiv
INVARIANT Unmodified
CHECK_DEADLOCK FALSE
