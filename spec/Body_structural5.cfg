SPECIFICATION Spec
CONSTANTS
  Rules = "structural"
  MaxLen = 5
  Shared = FALSE
INVARIANT Verbatim
INVARIANT ReturnOnce
INVARIANT HeldIntact
CHECK_DEADLOCK FALSE
