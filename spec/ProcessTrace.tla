---------------------------- MODULE ProcessTrace ----------------------------
(* Trace validation for Process.tla.  One NDJSON line = the merged history of all processes of one experiment:  *)
(*   {"id", "ev": [ {"proc", "seq", "seed", "op", "input": digest, "output": digest} ... ]}                      *)
(* ordered by (proc, seq).  A call is accepted iff it agrees with memo (Process!Call's guard); a disagreement   *)
(* is printed as <<"F", id, step, "Deterministic", op>>.                                                        *)
EXTENDS Naturals, Sequences, TLC, Json, IOUtils
Traces == IF "TRACE_FILE" \in DOMAIN IOEnv THEN ndJsonDeserialize(IOEnv.TRACE_FILE) ELSE <<>>
VARIABLES tid, l, memo
T == Traces[tid]
Key(e) == <<e.op, e.input>>
TInit == tid \in 1..Len(Traces) /\ l = 1 /\ memo = [x \in {} |-> "unseen"]
TStep == /\ l <= Len(T.ev)
         /\ LET e == T.ev[l] IN
              /\ (Key(e) \in DOMAIN memo /\ memo[Key(e)] # e.output) => PrintT(<<"F", T.id, l, "Deterministic", e.op>>)
              /\ memo' = IF Key(e) \in DOMAIN memo THEN memo ELSE [x \in DOMAIN memo \cup {Key(e)} |-> IF x = Key(e) THEN e.output ELSE memo[x]]
         /\ l' = l + 1 /\ UNCHANGED tid
TDone == l = Len(T.ev) + 1 /\ PrintT(<<"D", T.id, Len(T.ev)>>) /\ l' = l + 1 /\ UNCHANGED <<tid, memo>>
TraceSpec == TInit /\ [][TStep \/ TDone]_<<tid, l, memo>>
=============================================================================
