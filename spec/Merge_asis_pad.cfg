SPECIFICATION Spec
CONSTANTS
  MissingOrder = "signature"
  Reorder = TRUE
  PadFromFront = TRUE
INVARIANT NoDropNoDup
INVARIANT SigDefaults
INVARIANT SourceOrder
INVARIANT Deterministic
CHECK_DEADLOCK FALSE
