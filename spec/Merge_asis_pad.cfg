SPECIFICATION Spec
CONSTANTS
  MissingOrder = "signature"
  Reorder = TRUE
  PadFromFront = TRUE
  DocExtras = {}
INVARIANT NoDropNoDup
INVARIANT SigDefaults
INVARIANT SourceOrder
INVARIANT Deterministic
CHECK_DEADLOCK FALSE
