-------------------------------- MODULE Cli --------------------------------
(***************************************************************************)
(* The command line of doctrans as an accept / reject relation (C20, and   *)
(* the CLI halves of C09 / C19).                                           *)
(*                                                                         *)
(* An invocation is a record of the relevant flags; a file argument is     *)
(* "none" (flag omitted), "missing" (path does not exist) or "existing".   *)
(* Must(i)   = it has to be carried out: exit 0, no internal error.        *)
(* Reject(i) = it has to be refused: a usage error (non-zero exit with the *)
(*             refusal message) and an untouched file system.              *)
(* Anything else may go either way but may never end in an internal error  *)
(* nor change the file system when refused.                                *)
(***************************************************************************)
EXTENDS Naturals, FiniteSets, TLC

FileArg == {"none", "missing", "existing"}
K == {"argparse", "class", "function"}

SyncInv == [cmd : {"sync"}, truth : K \cup {"none"}, file : [K -> FileArg], name : [K -> BOOLEAN]]
PropInv == [cmd : {"sync_properties"}, input : FileArg, output : FileArg, params : BOOLEAN]
\* spelling: the output file named plainly or with an unexpanded `~` (which file is meant does not depend on the spelling)
GenInv  == [cmd : {"gen"}, output : FileArg, flags : BOOLEAN, spelling : {"plain", "tilde"}]

NFiles(i) == Cardinality({k \in K : i.file[k] # "none"})

Must(i) ==
  CASE i.cmd = "sync" -> /\ i.truth # "none" /\ i.file[i.truth] = "existing" /\ NFiles(i) >= 2
                         /\ \A k \in K : (i.file[k] # "none") <=> i.name[k]
    [] i.cmd = "sync_properties" -> i.input = "existing" /\ i.output = "existing" /\ i.params
    [] i.cmd = "gen" -> i.output = "missing" /\ i.flags

Reject(i) ==
  CASE i.cmd = "sync" -> \/ i.truth = "none"                      \* --truth is required
                         \/ i.file[i.truth] # "existing"           \* the truth file must exist
                         \/ NFiles(i) < 2                          \* two or more files
    [] i.cmd = "sync_properties" -> i.input # "existing" \/ i.output # "existing" \/ ~i.params
    [] i.cmd = "gen" -> i.output \in {"existing", "none"} \/ ~i.flags

Outcome == {"ok", "usage", "refused", "internal"}
\* the allowed outcomes of an invocation, and whether the file system may change
Allowed(i) == IF Must(i) THEN {"ok"} ELSE IF Reject(i) THEN {"usage", "refused"} ELSE {"ok", "usage", "refused"}
MayChange(i, o) == o = "ok"

VARIABLES inv, out, changed
vars == <<inv, out, changed>>
Init == inv \in SyncInv \cup PropInv \cup GenInv /\ out = "pending" /\ changed = FALSE
Run  == /\ out = "pending"
        /\ out' \in Allowed(inv)
        /\ changed' \in (IF MayChange(inv, out') THEN BOOLEAN ELSE {FALSE})
        /\ UNCHANGED inv
Spec == Init /\ [][Run]_vars

\* sanity of the relation itself
Disjoint       == ~(Must(inv) /\ Reject(inv))
RejectedFrame  == (out \in {"usage", "refused"}) => ~changed
NeverInternal  == out # "internal"
=============================================================================
