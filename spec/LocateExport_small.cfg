SPECIFICATION Spec
CONSTANTS
  Size = "small"
CHECK_DEADLOCK FALSE
