SPECIFICATION Spec
CONSTANTS
  Rules = "structural"
  MaxLen = 4
CHECK_DEADLOCK FALSE
