SPECIFICATION Spec
CONSTANTS
  Rules = "structural"
  MaxLen = 4
  Shared = FALSE
CHECK_DEADLOCK FALSE
