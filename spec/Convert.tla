------------------------------ MODULE Convert ------------------------------
(***************************************************************************)
(* The conversion model explored by TLC: every chain of hops (Emit ; Parse)*)
(* over a domain of interface descriptions, with the hop relation of       *)
(* ConvertRel.tla.  Checked: ChainRefines (C05), Tight (C01-C04),          *)
(* FixedPointConsistent (C08), StyleSound (C01), TypeOK.                   *)
(***************************************************************************)
EXTENDS ConvertRel

\* ------------------------------------------------------------------------
\* the model explored by TLC: every hop sequence over a domain of descriptions
\* ------------------------------------------------------------------------
CONSTANTS Dom,          \* which input domain: "single" | "pair" | "triple"
          MaxHops       \* length of conversion chains explored

VARIABLES orig,         \* the description we started from
          ir,           \* the current description
          hops          \* sequence of <<kind, dd>> already applied
vars == <<orig, ir, hops>>

FullTyps   == TypTok
SmallTyps  == {"none", "int", "str", "OptInt"}
SmallDefs  == {"absent", "none", "intPos", "str"}
Good(S)    == {s \in S : GoodIn(s)}
SingleSlots == Good(InSlots({"p1"}, FullTyps, DefTok))
SmallSlots(n) == Good({s \in InSlots({n}, SmallTyps, SmallDefs) : s.dstop = (s.dbase = "own")})
SmallRets  == {NoRet, Ret(TRUE, "int", "own", TRUE, "no", "absent"), Ret(TRUE, "TupleIntStr", "own", FALSE, "no", "code"),
               Ret(TRUE, "none", "none", FALSE, "no", "code")}

Domain ==
  CASE Dom = "single" ->
         { IR("one", <<s>>, r) : s \in SingleSlots, r \in SmallRets }
         \cup { IR("one", <<s>>, NoRet) : s \in KwSlots }
         \cup { IR(sm, <<>>, r) : sm \in SumTok, r \in {x \in InRets : GoodRet(x)} }
    [] Dom = "pair" ->
         { IR("one", <<s1, s2>>, NoRet) : s1 \in Good(InSlots({"p1"}, FullTyps, DefTok)),
                                          s2 \in SmallSlots("p2") \cup {Slot("kw", KwTyp, "own", FALSE, "no", "none")} }
    [] Dom = "triple" ->
         { IR("one", <<s1, s2, s3>>, r) : s1 \in SmallSlots("p1"), s2 \in SmallSlots("p2"),
                                          s3 \in SmallSlots("p3") \cup {Slot("kw", KwTyp, "own", FALSE, "no", "none")},
                                          r \in {NoRet, Ret(TRUE, "int", "own", TRUE, "no", "absent")} }

Init == /\ orig \in Domain
        /\ ir = orig
        /\ hops = <<>>

Hop(k, dd) == /\ Len(hops) < MaxHops
              /\ ir' \in AllowedIR(k, dd, ir)
              /\ hops' = Append(hops, <<k, dd>>)
              /\ UNCHANGED orig

\* C08: a second pass through the same kind with the same options must be a stutter on the description.
Again(k, dd) == /\ hops # <<>> /\ Last(hops) = <<k, dd>>
                /\ Len(hops) < MaxHops
                /\ ir' = ir
                /\ hops' = Append(hops, <<k, dd>>)
                /\ UNCHANGED orig

Next == \E k \in Kind, dd \in BOOLEAN : Hop(k, dd) \/ Again(k, dd)
Spec == Init /\ [][Next]_vars

\* ------------------------------------------------------------------------
\* properties of the specification itself
\* ------------------------------------------------------------------------
TypeOK == /\ WellFormedIR(ir)
          /\ \A i \in 1..Len(ir.params) :
               /\ ir.params[i].typ \in ObsTypTok \cup {"Opt:" \o t : t \in ObsTypTok}
               /\ ir.params[i].def \in ObsDefTok
               /\ ir.params[i].dbase \in DBase /\ ir.params[i].dann \in DAnn
          /\ Len(hops) <= MaxHops

KindsOnPath == PathKinds(hops)
LossyDefOnPath == PathLossy(hops)

\* C05: a chain never invents, swaps or loses more than the kinds on it cannot express (operators in ConvertRel.tla)
ChainRefines ==
  /\ Names(ir) = Names(orig)
  /\ ir.doc = orig.doc
  /\ \A i \in 1..Len(orig.params) : SlotRefines(hops, orig.params[i], ir.params[i])
  /\ RetRefines(hops, orig.ret, ir.ret)

\* C01-C04: on what a kind expresses exactly the hop relation is the identity (guards against a permissive spec)
Exact(k, dd, s) == /\ s.typ # "none" /\ (k = "argparse" => (ArgExpr(s.typ) /\ s.def # "none"))
                   /\ s.def # "absent" /\ DefExpr(k, dd)
                   /\ (s.dbase = "own" => s.dstop) /\ s.dann = "no"
Tight ==
  \A k \in Kind, dd \in BOOLEAN :
    \A i \in 1..Len(ir.params) :
      LET s == ir.params[i] IN
        Exact(k, dd, s) =>
          \A a \in AllowedSlots(k, dd, s) :
            a.typ = s.typ /\ a.def = s.def /\ a.dbase = s.dbase /\ a.dstop = s.dstop

\* C08: the stutter demanded by Again is compatible with the hop clauses (otherwise the spec asks the impossible)
FixedPointConsistent ==
  hops # <<>> =>
    LET k == Last(hops)[1]  dd == Last(hops)[2] IN IROK(k, dd, ir, ir)

\* C01: an emission in style s carries exactly the section tokens of s, so detection by priority finds s
StyleSound ==
  \A k \in DocKind : HasEntries(ir) => Detect(EmitFlags(k, ir)) = k

\* export of the input domain for the drivers (spec -> code)
=============================================================================
