SPECIFICATION Spec
CONSTANTS
  Rules = "structural"
  MaxLen = 4
INVARIANT Verbatim
INVARIANT ReturnOnce
CHECK_DEADLOCK FALSE
